"""C10 (proved tier, small) — how the pivoted-Cholesky preconditioner of K + D is assembled from its numerical leaves.

``AddedDiagLinearOperator._preconditioner`` / ``_init_cache`` are executed symbolically relative to leaf models of
``pivoted_cholesky`` (a fresh n x k factor L) and ``torch.linalg.qr`` (fresh Q, R of the reduced shapes).  Obligations, for
all sizes, ranks, batch shapes and entries, on the constant-diagonal and on the general branch:
   the operator returned IS  L L^T + D                                           (spec matrix, entry-wise)
   QR is called on  [L ; sqrt(c) I]  (constant diagonal c)  resp.  [D^-1/2 L ; I]
   closure(B)  ==  (1/d_i) * (B - Q1 Q1^T B)[i, :]      constant branch (Q1 = first n rows of Q; d_i = D_ii, all equal there)
   closure(B)  ==  B[i, :] / d_i - (Qt Qt^T B)[i, :]    general branch,  Qt = D^-1/2 Q1
   logdet      ==  2 sum_j log |R_jj| + (n - k) log c    resp.   2 sum_j log |R_jj| - sum_i log (1 / d_i)
   the constant branch is taken only if every batch member's diagonal is constant (the branch condition, as a fact about D)
That these formulas equal (L L^T + D)^-1 B and log |L L^T + D| is the Woodbury / matrix-determinant-lemma step through the QR
factorisation; it needs matrix inverses and is NOT proved here (bounded tier).  The pivoted Cholesky iteration itself
(greedy pivots, residual, stopping rule) is bounded-tier only."""
from __future__ import annotations

import z3

from engine import sym
from engine.common import DISCHARGED, REFUTED, UNKNOWN, Unit, conformance_unit, ob

PID = "C10"


def check(br, noise_batched):
    from contracts import sh_C03, sh_C06, spec
    from engine import shadow, symops as SO, symtensor as T
    from engine.symtensor import SymTensor

    sh_C03._env()
    torch = shadow.torch()
    from linear_operator import operators as LO, settings

    base = f"C10/preconditioner/batchrank={br}/noise_batched={noise_batched}"
    real = z3.RealSort()

    def thunk():
        c = sym.ctx()
        bs = tuple(sym.sym_int(f"B{t}", 1) for t in range(br))
        n, k, p = sym.sym_int("n", 1), sym.sym_int("k", 1), sym.sym_int("p", 1)
        K = SymTensor.fresh("K", bs + (n, n), T.float64)
        d = SymTensor.fresh("d", (bs if noise_batched else ()) + (n,), T.float64, constraint=lambda idx, v: v > 0)
        op = LO.AddedDiagLinearOperator(LO.DenseLinearOperator(K), LO.DiagLinearOperator(d))
        L = SymTensor.fresh("Lpc", bs + (n, k), T.float64, owner="callee:pivoted_cholesky")
        calls = {"pc": 0, "qr": []}

        def pivoted_cholesky(rank=None, error_tol=None, return_pivots=False):
            calls["pc"] += 1
            return L
        op._linear_op.pivoted_cholesky = pivoted_cholesky

        def qr(M, mode="reduced"):
            Q = SymTensor.fresh(c.fresh_name("Q_qr"), tuple(M.shape), M.dtype, owner="callee:qr")
            R = SymTensor.fresh(c.fresh_name("R_qr"), tuple(M.shape[:-2]) + (M.shape[-1], M.shape[-1]), M.dtype, owner="callee:qr")
            calls["qr"].append({"M": M, "Q": Q, "R": R})
            return Q, R
        torch.linalg.qr = qr
        settings.min_preconditioning_size._global_value = 1
        settings.max_preconditioner_size._global_value = k
        try:
            closure, plt, logdet = op._preconditioner()
        finally:
            settings.min_preconditioning_size._global_value = 2000
            settings.max_preconditioner_size._global_value = 15
        if closure is None:
            return "nan-path"  # the NaN guard of the real code (torch.isnan(...).any()): no preconditioner, nothing to state
        ok = calls["pc"] == 1 and len(calls["qr"]) == 1
        c.prove(f"{base}/leaves-called-once", z3.BoolVal(ok), info=calls["pc"])
        if not ok:
            return "ok"
        const = bool(op._constant_diag)
        tag = "constant" if const else "general"
        M, Qf, R = calls["qr"][0]["M"], calls["qr"][0]["Q"], calls["qr"][0]["R"]
        nb = len(bs)
        b = tuple(z3.Int(c.fresh_name(f"b{t}!p")) for t in range(nb))
        i, l, j, cc = (z3.Int(c.fresh_name(f"{nm}!p")) for nm in ("i", "l", "j", "c"))
        for r_ in (i, l):  # the facts torch.equal(noise, noise[..., :1, :] * ones) registered (rank of the noise tensor: batched or not)
            sym.instantiate_universals(b + (r_, z3.IntVal(0)), key=nb + 2)
            sym.instantiate_universals((r_, z3.IntVal(0)), key=2)
        inb_b = z3.And(*[z3.And(x >= 0, x < sym.as_z3_int(s)) for x, s in zip(b, bs)]) if nb else z3.BoolVal(True)
        rng = lambda v, hi: z3.And(v >= 0, v < sym.as_z3_int(hi))  # noqa
        dat = lambda r: d.at(*(b if noise_batched else ()), r)  # noqa
        Lat = lambda r, s_: L.at(*b, r, s_)  # noqa
        # (1) the returned operator is L L^T + D
        Pd = spec.D(plt)
        okp = len(Pd.shape) == nb + 2
        c.prove(f"{base}/{tag}/operator/shape", z3.And(z3.BoolVal(okp), *[sym.as_z3_int(a_) == sym.as_z3_int(q_) for a_, q_ in zip(Pd.shape, bs + (n, n))]) if okp else z3.BoolVal(False), info=str(Pd.shape))
        if okp:
            c.prove(f"{base}/{tag}/operator == L L^T + D", z3.Implies(z3.And(inb_b, rng(i, n), rng(l, n)),
                    Pd.at(*b, i, l) == SO.sum_term(k, lambda t: Lat(i, t) * Lat(l, t), real) + z3.If(i == l, dat(i), z3.RealVal(0))))
        # (2) argument of the QR leaf
        sq = SO.real_uf("sqrt")
        Mat = lambda r, s_: M.at(*SO.bidx(tuple(M.shape[:-2]), b), r, s_)  # noqa
        c.prove(f"{base}/{tag}/qr-argument/shape", z3.And(sym.as_z3_int(M.shape[-2]) == sym.as_z3_int(n) + sym.as_z3_int(k), sym.as_z3_int(M.shape[-1]) == sym.as_z3_int(k)), info=str(M.shape))
        if const:
            c.prove(f"{base}/{tag}/branch-condition: every member's diagonal is constant", z3.Implies(z3.And(inb_b, rng(i, n), rng(l, n)), dat(i) == dat(l)))
            c.prove(f"{base}/{tag}/qr-argument/top == L", z3.Implies(z3.And(inb_b, rng(i, n), rng(j, k)), Mat(i, j) == Lat(i, j)))
            c.prove(f"{base}/{tag}/qr-argument/bottom == sqrt(c) I", z3.Implies(z3.And(inb_b, rng(i, n), rng(j, k), rng(l, k)), Mat(sym.as_z3_int(n) + l, j) == z3.If(l == j, sq(dat(i)), z3.RealVal(0))))
        else:
            c.prove(f"{base}/{tag}/qr-argument/top == D^-1/2 L", z3.Implies(z3.And(inb_b, rng(i, n), rng(j, k)), Mat(i, j) == Lat(i, j) / sq(dat(i))))
            c.prove(f"{base}/{tag}/qr-argument/bottom == I", z3.Implies(z3.And(inb_b, rng(j, k), rng(l, k)), Mat(sym.as_z3_int(n) + l, j) == z3.If(l == j, z3.RealVal(1), z3.RealVal(0))))
        # (3) the closure
        B = SymTensor.fresh("Bp", bs + (n, p), T.float64)
        X = closure(B)
        okx = isinstance(X, SymTensor) and len(X.shape) == nb + 2
        c.prove(f"{base}/{tag}/closure/shape", z3.And(z3.BoolVal(okx), *[sym.as_z3_int(a_) == sym.as_z3_int(q_) for a_, q_ in zip(X.shape, bs + (n, p))]) if okx else z3.BoolVal(False), info=str(getattr(X, "shape", X)))
        Qat = lambda r, s_: Qf.at(*SO.bidx(tuple(Qf.shape[:-2]), b), r, s_)  # noqa
        if okx:
            inb_x = z3.And(inb_b, rng(i, n), rng(cc, p))
            if const:
                qqt = SO.sum_term(k, lambda t: Qat(i, t) * SO.sum_term(n, lambda r: Qat(r, t) * B.at(*b, r, cc), real), real)
                c.prove(f"{base}/{tag}/closure == (B - Q1 Q1^T B) / c", z3.Implies(inb_x, X.at(*b, i, cc) == (z3.RealVal(1) / dat(i)) * (B.at(*b, i, cc) - qqt)))
            else:
                qt = lambda r, t: Qat(r, t) / sq(dat(r))  # noqa
                qqt = SO.sum_term(k, lambda t: qt(i, t) * SO.sum_term(n, lambda r: qt(r, t) * B.at(*b, r, cc), real), real)
                c.prove(f"{base}/{tag}/closure == B / d - Qt Qt^T B", z3.Implies(inb_x, X.at(*b, i, cc) == B.at(*b, i, cc) / dat(i) - qqt))
        # (4) logdet formula
        log = sym.uf("log", real, real)
        absf = lambda x: z3.If(x >= 0, x, -x)  # noqa
        Rat = lambda r, s_: R.at(*SO.bidx(tuple(R.shape[:-2]), b), r, s_)  # noqa
        twolog = 2 * SO.sum_term(k, lambda t: log(absf(Rat(t, t))), real)
        okl = isinstance(logdet, SymTensor) and len(logdet.shape) == nb
        c.prove(f"{base}/{tag}/logdet/shape", z3.And(z3.BoolVal(okl), *[sym.as_z3_int(a_) == sym.as_z3_int(q_) for a_, q_ in zip(logdet.shape, bs)]) if okl else z3.BoolVal(False), info=str(getattr(logdet, "shape", logdet)))
        if okl:
            if const:
                expl = twolog + z3.ToReal(sym.as_z3_int(n) - sym.as_z3_int(k)) * log(dat(i))
                c.prove(f"{base}/{tag}/logdet == 2 sum log|R_jj| + (n-k) log c", z3.Implies(z3.And(inb_b, rng(i, n)), logdet.at(*b) == expl))
            else:
                expl = twolog - SO.sum_term(n, lambda r: log(z3.RealVal(1) / dat(r)), real)
                c.prove(f"{base}/{tag}/logdet == 2 sum log|R_jj| - sum log(1/d_i)", z3.Implies(inb_b, logdet.at(*b) == expl))
        writes = [e for e in c.events if e[0] == "inplace" and str(e[1]["owner"]).startswith("caller")]
        c.prove(f"{base}/{tag}/frame", z3.BoolVal(not writes), kind="frame", info=[e[1] for e in writes][:3])
        return tag

    paths = sym.explore(thunk, max_paths=64, timeout_ms=20000)
    out = sh_C03._collect(paths, base, need=("return",), replay={"module": "contracts.sh_C10", "func": "replay", "args": []})
    seen = {p.value for p in paths if p.outcome == "return"}
    for need in ("constant", "general"):
        out.append(ob(f"{base}/cover/{need}-branch-explored", DISCHARGED if need in seen else REFUTED, by="explorer", info=sorted(map(str, seen))))
    return out


def replay():
    """native: closure = (L L^T + D)^-1, logdet and returned operator on concrete instances (constant / general / batch-shared diagonal)"""
    import os
    import sys

    repo = os.environ.get("VERIF_REPO", "/repo")
    if repo not in sys.path:
        sys.path.insert(0, repo)
    import torch

    from linear_operator import settings
    from linear_operator.operators import AddedDiagLinearOperator, DenseLinearOperator, DiagLinearOperator

    g = torch.Generator().manual_seed(6)
    fails = []
    n = 12
    for batch, dshape, const in (((), (), True), ((), (), False), ((3,), (3,), False), ((3,), (3,), True), ((3,), (), False), ((2, 3), (3,), False)):
        x = torch.rand(*batch, n, 1, generator=g, dtype=torch.float64)
        K = torch.exp(-((x - x.mT) ** 2) / 0.5)
        d = (torch.rand(*dshape, 1, generator=g, dtype=torch.float64) + 0.5).expand(*dshape, n).clone() if const else torch.rand(*dshape, n, generator=g, dtype=torch.float64) + 0.5
        if dshape and not const:
            d = d[:1].expand(*dshape, n).clone() if batch == (3,) and dshape == (3,) else d  # a diagonal shared by the batch members but not constant
        op = AddedDiagLinearOperator(DenseLinearOperator(K), DiagLinearOperator(d))
        with settings.min_preconditioning_size(1), settings.max_preconditioner_size(4):
            closure, plt, logdet = op._preconditioner()
        P = plt.to_dense()
        Lm = op._piv_chol_self
        E = Lm @ Lm.mT + torch.diag_embed(d.expand(*batch, n))
        B = torch.randn(*batch, n, 2, generator=g, dtype=torch.float64)
        lab = f"batch={batch} diag{tuple(d.shape)} constant={const}"
        if not torch.allclose(P, E, atol=1e-10):
            fails.append(f"{lab}: the returned operator is not L L^T + D")
        if not torch.allclose(closure(B), torch.linalg.solve(E, B), atol=1e-8):
            fails.append(f"{lab}: closure(B) differs from (L L^T + D)^-1 B by {float((closure(B) - torch.linalg.solve(E, B)).abs().max()):.2e}")
        if not torch.allclose(logdet, torch.linalg.slogdet(E)[1], atol=1e-8):
            fails.append(f"{lab}: logdet differs from log|L L^T + D|")
    return {"reproduced": bool(fails), "detail": "; ".join(fails[:3]) or "native family shows no deviation"}


def shadow_units(tier):
    us = [conformance_unit(PID)]
    for br in ((0, 1) if tier == "quick" else (0, 1, 2)):
        for nbat in ((False, True) if br else (False,)):
            us.append(Unit(f"C10/shadow/preconditioner/br={br}/noise_batched={nbat}", "contracts.sh_C10", "check", (br, nbat), engine="shadow", timeout_s=900))
    return us


SH_META = {
    "functions_under_contract": ["AddedDiagLinearOperator._preconditioner", "AddedDiagLinearOperator._init_cache", "_init_cache_for_constant_diag", "_init_cache_for_non_constant_diag"],
    "trusted_base": ["z3", "CPython", "symtorch models (cat, narrow, equal with universals, view, squeeze, diagonal)", "sum normal form prover",
                     "leaf models: pivoted_cholesky returns some n x k factor L; torch.linalg.qr returns some Q, R of the reduced shapes (NO property of Q, R is used)"],
    "assumptions": ["floats as reals; diagonal entries > 0", "the Woodbury / determinant-lemma step (the closure formula equals (L L^T + D)^-1, the logdet formula equals log|L L^T + D|, given QR = M and Q^T Q = I) is not proved",
                    "the pivoted Cholesky iteration (PivotedCholesky.forward) and its backward: bounded tier only"],
}
