"""C11 (proved tier, small) — how ``sqrt_inv_matmul`` assembles its results from the quadrature.

``functions/_sqrt_inv_matmul.py::SqrtInvMatmul.forward`` (through the public ``LinearOperator.sqrt_inv_matmul``) is executed
symbolically relative to a leaf model of ``utils.contour_integral_quad`` that returns fresh tensors
(solves S[q, *b, n, c], weights W[q, *1.., 1, 1], no_shift_solves N[*b, n, c], shifts).  Obligations, for all sizes, batch
shapes, numbers of quadrature points and columns:
   the leaf is called once, on the operator, with  terms == rhs  (no left factor)  or  terms == [rhs | lhs^T]  (left factor), inverse=True
   result[b, i, c]   == sum_q W[q] * S[q, b, i, c]                               (no left factor; shape of rhs, vector rhs squeezed)
   result[b, i, c]   == sum_j lhs[b, i, j] * sum_q W[q] * S[q, b, j, c]            (left factor; only the rhs block of columns)
   inv_quad[b, i]    == - sum_j lhs[b, i, j] * N[b, j, p + i]                      (the lhs block of the un-shifted solves, row i with column p + i)
   without a left factor inv_quad is zeros of the batch shape;  rhs / lhs are not written
With the leaf's documented meaning (S_q = (A + s_q I)^-1 terms, sum_q w_q S_q ~ A^-1/2 terms, N = -A^-1 terms) these give
"sqrt_inv_matmul = L A^-1/2 R" and "the left-factor variant also returns diag(L A^-1 L^T)".  The quadrature itself (elliptic
functions, Lanczos estimate of the spectrum), minres and the sampling path are bounded-tier only."""
from __future__ import annotations

import z3

from engine import sym
from engine.common import DISCHARGED, REFUTED, UNKNOWN, Unit, conformance_unit, ob

PID = "C11"


def check(br, with_lhs, vec):
    from contracts import sh_C03, spec
    from engine import shadow, symops as SO, symtensor as T
    from engine.symtensor import SymTensor
    import importlib

    sh_C03._env()
    torch = shadow.torch()
    from linear_operator import settings
    fmod = importlib.import_module("linear_operator.functions._sqrt_inv_matmul")
    base = f"C11/sqrt_inv_matmul/batchrank={br}/lhs={with_lhs}/vector_rhs={vec}"
    real = z3.RealSort()

    def thunk():
        c = sym.ctx()
        op = sh_C03.build("Dense", br)
        Dm = spec.D(op)
        c.assume(Dm.shape[-1] == Dm.shape[-2])
        n = Dm.shape[-1]
        bs = tuple(Dm.shape[:-2])
        nb = len(bs)
        p = 1 if vec else sym.sym_int("p", 1)
        m = sym.sym_int("m", 1)
        Q = sym.sym_int("Q", 1)
        settings.num_contour_quadrature._global_value = Q
        rhs = SymTensor.fresh("rhs", (n,) if vec else bs + (n, p), T.float64)
        lhs = SymTensor.fresh("lhs", bs + (m, n), T.float64) if with_lhs else None
        calls = []

        def contour_integral_quad(linear_op, terms, inverse=False, weights=None, shifts=None, max_lanczos_iter=20, num_contour_quadrature=None, shift_offset=0):
            cols = terms.shape[-1]
            tb = tuple(terms.shape[:-2])
            S = SymTensor.fresh(c.fresh_name("S_ciq"), (num_contour_quadrature,) + tb + (n, cols), terms.dtype, owner="callee:ciq")
            W = SymTensor.fresh(c.fresh_name("W_ciq"), (num_contour_quadrature,) + (1,) * len(tb) + (1, 1), terms.dtype, owner="callee:ciq")
            N = SymTensor.fresh(c.fresh_name("N_ciq"), tb + (n, cols), terms.dtype, owner="callee:ciq")
            sh = SymTensor.fresh(c.fresh_name("shifts_ciq"), (num_contour_quadrature,) + (1,) * len(tb) + (1, 1), terms.dtype, owner="callee:ciq")
            calls.append({"op": linear_op, "terms": terms, "inverse": inverse, "nq": num_contour_quadrature, "S": S, "W": W, "N": N})
            return S, W, N, sh
        fmod.utils.contour_integral_quad = contour_integral_quad
        try:
            res = op.sqrt_inv_matmul(rhs, lhs) if with_lhs else op.sqrt_inv_matmul(rhs)
        finally:
            settings.num_contour_quadrature._global_value = 15
        ok = len(calls) == 1
        c.prove(f"{base}/quadrature-called-once", z3.BoolVal(ok), info=len(calls))
        if not ok:
            return "ok"
        k = calls[0]
        S, W, N, terms = k["S"], k["W"], k["N"], k["terms"]
        c.prove(f"{base}/quadrature-arguments", z3.And(z3.BoolVal(k["inverse"] is True), sym.as_z3_int(k["nq"]) == sym.as_z3_int(Q)), info=f"inverse={k['inverse']} nq={k['nq']}")
        b = tuple(z3.Int(c.fresh_name(f"b{t}!s")) for t in range(nb))
        i, cc, j = (z3.Int(c.fresh_name(f"{nm}!s")) for nm in ("i", "c", "j"))
        pz = sym.as_z3_int(p)
        rat = (lambda jj, c_: rhs.at(jj)) if vec else (lambda jj, c_: rhs.at(*b, jj, c_))
        # terms == [rhs | lhs^T]
        tb = tuple(terms.shape[:-2])
        tat = lambda jj, c_: terms.at(*SO.bidx(tb, b), jj, c_)  # noqa
        inb_j = z3.And(*[z3.And(x >= 0, x < sym.as_z3_int(s)) for x, s in zip(b, bs)], j >= 0, j < sym.as_z3_int(n))
        exp_cols = (pz + sym.as_z3_int(m)) if with_lhs else pz
        c.prove(f"{base}/terms/columns", sym.as_z3_int(terms.shape[-1]) == exp_cols, info=str(terms.shape))
        c.prove(f"{base}/terms/rhs-block", z3.Implies(z3.And(inb_j, cc >= 0, cc < pz), tat(j, cc) == rat(j, cc)))
        if with_lhs:
            c.prove(f"{base}/terms/lhs^T-block", z3.Implies(z3.And(inb_j, i >= 0, i < sym.as_z3_int(m)), tat(j, pz + i) == lhs.at(*b, i, j)))
        Sb = lambda q, jj, c_: S.at(q, *SO.bidx(tuple(S.shape[1:-2]), b), jj, c_)  # noqa
        Wq = lambda q: W.at(q, *([z3.IntVal(0)] * (len(W.shape) - 1)))  # noqa
        quad = lambda jj, c_: SO.sum_term(Q, lambda q: Wq(q) * Sb(q, jj, c_), real)  # noqa
        if with_lhs:
            out, iq = res
            exp_shape = bs + (m,) + (() if vec else (p,))
        else:
            out, iq = res, None
            exp_shape = (n,) if vec else bs + (n, p)
        okr = isinstance(out, SymTensor) and len(out.shape) == len(exp_shape)
        c.prove(f"{base}/result/shape", z3.And(z3.BoolVal(okr), *[sym.as_z3_int(a) == sym.as_z3_int(q_) for a, q_ in zip(out.shape, exp_shape)]) if okr else z3.BoolVal(False), info=f"{getattr(out, 'shape', out)} vs {exp_shape}")
        if okr:
            rows = m if with_lhs else n
            inb_o = z3.And(*[z3.And(x >= 0, x < sym.as_z3_int(s)) for x, s in zip(b, bs)], i >= 0, i < sym.as_z3_int(rows), cc >= 0, cc < pz)
            if vec and not with_lhs:
                oat = out.at(i)
            else:
                oat = out.at(*b, i) if vec else out.at(*b, i, cc)
            cz = z3.IntVal(0) if vec else cc
            if with_lhs:
                expv = SO.sum_term(n, lambda jj: lhs.at(*b, i, jj) * quad(jj, cz), real)
            else:
                expv = quad(i, cz)
            c.prove(f"{base}/result/value = {'lhs @ ' if with_lhs else ''}sum_q w_q S_q [rhs block]", z3.Implies(inb_o, oat == expv))
        if with_lhs:
            oki = isinstance(iq, SymTensor) and len(iq.shape) == nb + 1
            c.prove(f"{base}/inv_quad/shape", z3.And(z3.BoolVal(oki), *[sym.as_z3_int(a) == sym.as_z3_int(q_) for a, q_ in zip(iq.shape, bs + (m,))]) if oki else z3.BoolVal(False), info=str(getattr(iq, "shape", iq)))
            if oki:
                Nb = lambda jj, c_: N.at(*SO.bidx(tuple(N.shape[:-2]), b), jj, c_)  # noqa
                inb_i = z3.And(*[z3.And(x >= 0, x < sym.as_z3_int(s)) for x, s in zip(b, bs)], i >= 0, i < sym.as_z3_int(m))
                c.prove(f"{base}/inv_quad/value = - sum_j lhs[i,j] N[j, p+i]", z3.Implies(inb_i, iq.at(*b, i) == -SO.sum_term(n, lambda jj: lhs.at(*b, i, jj) * Nb(jj, pz + i), real)))
        writes = [e for e in c.events if e[0] == "inplace" and str(e[1]["owner"]).startswith("caller")]
        c.prove(f"{base}/frame", z3.BoolVal(not writes), kind="frame", info=[e[1] for e in writes][:3])
        return "ok"

    paths = sym.explore(thunk, max_paths=64, timeout_ms=20000)
    return sh_C03._collect(paths, base, need=("return",), replay={"module": "contracts.sh_C11", "func": "replay", "args": []})


def replay():
    """native: sqrt_inv_matmul twice = A^-1 R and the left-factor variant's diag(L A^-1 L^T) on small well-conditioned operators"""
    import os
    import sys

    repo = os.environ.get("VERIF_REPO", "/repo")
    if repo not in sys.path:
        sys.path.insert(0, repo)
    import torch

    from linear_operator.operators import DenseLinearOperator

    g = torch.Generator().manual_seed(5)
    fails = []
    for batch in ((), (2,)):
        n = 6
        M = torch.randn(*batch, n, n, generator=g, dtype=torch.float64)
        A = M @ M.mT / n + torch.eye(n, dtype=torch.float64)
        R = torch.randn(*batch, n, 2, generator=g, dtype=torch.float64)
        Lh = torch.randn(*batch, 3, n, generator=g, dtype=torch.float64)
        op = DenseLinearOperator(A)
        w, V = torch.linalg.eigh(A)
        Aih = (V * w.rsqrt().unsqueeze(-2)) @ V.mT
        try:
            r1 = op.sqrt_inv_matmul(R)
            if r1.shape != R.shape or not torch.allclose(r1, Aih @ R, atol=1e-4):
                fails.append(f"batch={batch}: sqrt_inv_matmul(R) differs from A^-1/2 R")
            r2, iq = op.sqrt_inv_matmul(R, Lh)
            if r2.shape != (*batch, 3, 2) or not torch.allclose(r2, Lh @ Aih @ R, atol=1e-4):
                fails.append(f"batch={batch}: sqrt_inv_matmul(R, L) differs from L A^-1/2 R")
            e = (Lh @ torch.linalg.solve(A, Lh.mT)).diagonal(dim1=-2, dim2=-1)
            if iq.shape != e.shape or not torch.allclose(iq, e, atol=1e-4):
                fails.append(f"batch={batch}: the second result differs from diag(L A^-1 L^T)")
        except Exception as ex:  # noqa
            fails.append(f"batch={batch}: raised {ex!r}"[:200])
    return {"reproduced": bool(fails), "detail": "; ".join(fails[:3]) or "native family shows no deviation"}


def shadow_units(tier):
    us = [conformance_unit(PID)]
    for br in ((0, 1) if tier == "quick" else (0, 1, 2)):
        for with_lhs in (False, True):
            for vec in ((False, True) if br == 0 else (False,)):
                us.append(Unit(f"C11/shadow/sqrt_inv_matmul/br={br}/lhs={with_lhs}/vec={vec}", "contracts.sh_C11", "check", (br, with_lhs, vec), engine="shadow", timeout_s=600))
    return us


SH_META = {
    "functions_under_contract": ["functions/_sqrt_inv_matmul.py::SqrtInvMatmul.forward", "LinearOperator.sqrt_inv_matmul"],
    "trusted_base": ["z3", "CPython", "symtorch models (cat, split, mT, negative slicing, sum(0), mul_)", "sum normal form prover",
                     "leaf model of utils.contour_integral_quad: fresh tensors of the documented shapes (its meaning - shifted solves, quadrature weights, negated un-shifted solves - is NOT proved)"],
    "assumptions": ["floats as reals", "contour_integral_quad, minres, the Lanczos spectrum estimate, contour-integral sampling and every backward pass: bounded tier only"],
}
