"""C12 (proved tier) — the cache is a ghost map  key -> value  and every cache primitive of
linear_operator/utils/memoize.py satisfies its map contract; keys of distinct (name, args, kwargs) are
distinct; ``ignore_args=True`` is only used on methods whose result does not depend on their arguments.

Part M  contracts on the REAL functions of utils/memoize.py (``cached`` with and without ``ignore_args``,
        ``add_to_cache``, ``get_from_cache``, ``pop_from_cache``, ``pop_from_cache_ignore_args``,
        ``_is_in_cache*``), executed on a real object whose decorated method returns a fresh token per call,
        against the ghost map, for EVERY pair of calls over the finite key domain that occurs in the library
        (names x positional args x keyword dicts collected from the AST of /repo, see AUDIT) — exhaustive, so
        this is a proof for that finite domain:
          miss:  the method runs exactly once with exactly the given arguments, its value is stored under
                 key(name, args, kwargs) and returned;   hit: the stored value is returned, the method does not run;
          frame: no other key changes;   separation: two calls share an entry iff their (args, kwargs) are equal
                 (iff never, for the ignore_args variant);   pop removes exactly its key, raises CachingError if absent.
Part A  AUDIT (AST of the current tree, re-extracted on every run): every ``@cached`` use with its name and
        ignore_args flag; every explicit ``add_to_cache`` / ``pop_from_cache`` / ``_is_in_cache_ignore_all_args``
        site; obligations: (a) a name read by a cache-driven branch or written explicitly is the name of some
        ``@cached`` method or of another explicit writer (no orphan keys), (b) counts are at least the recorded
        floors (no silent loss of coverage).
Part I  every ``ignore_args=True`` method is executed symbolically (SHADOW) with different argument values on
        a symbolic operator; obligation: the spec matrices of the results coincide (so ignoring the arguments in
        the key is sound).  A new ``ignore_args=True`` use on a class the contract cannot build is reported undecided.
"""
from __future__ import annotations

import ast
import itertools
import os

import z3

from engine.common import DISCHARGED, REFUTED, UNKNOWN, REPO, Unit, conformance_unit, ob

PID = "C12"


def _audit():
    """AST scan of /repo/linear_operator"""
    root = os.path.join(REPO, "linear_operator")
    cached_uses, writers, readers, kwargs_seen = [], [], [], set()
    for dp, dn, fn in os.walk(root):
        dn[:] = [d for d in dn if d not in ("test", "__pycache__")]
        for f in fn:
            if not f.endswith(".py"):
                continue
            path = os.path.join(dp, f)
            rel = os.path.relpath(path, REPO)
            tree = ast.parse(open(path).read())
            for cls in [n for n in ast.walk(tree) if isinstance(n, ast.ClassDef)] + [tree]:
                for node in (cls.body if hasattr(cls, "body") else []):
                    if isinstance(node, ast.FunctionDef):
                        for d in node.decorator_list:
                            name, ign = None, False
                            if isinstance(d, ast.Name) and d.id == "cached":
                                cached_uses.append({"file": rel, "class": getattr(cls, "name", None), "method": node.name, "name": None, "ignore_args": False})
                            elif isinstance(d, ast.Call) and isinstance(d.func, ast.Name) and d.func.id == "cached":
                                for kw in d.keywords:
                                    if kw.arg == "name" and isinstance(kw.value, ast.Constant):
                                        name = kw.value.value
                                    if kw.arg == "ignore_args" and isinstance(kw.value, ast.Constant):
                                        ign = bool(kw.value.value)
                                cached_uses.append({"file": rel, "class": getattr(cls, "name", None), "method": node.name, "name": name, "ignore_args": ign})
            for n in ast.walk(tree):
                if isinstance(n, ast.Call) and isinstance(n.func, ast.Name):
                    fnm = n.func.id
                    if fnm in ("add_to_cache", "pop_from_cache", "get_from_cache", "_is_in_cache_ignore_all_args", "_is_in_cache_ignore_args", "pop_from_cache_ignore_args") and rel != "linear_operator/utils/memoize.py":
                        key = n.args[1].value if len(n.args) > 1 and isinstance(n.args[1], ast.Constant) else None
                        (writers if fnm == "add_to_cache" else readers).append({"file": rel, "line": n.lineno, "fn": fnm, "name": key, "nargs": len(n.args), "kwargs": sorted(k.arg or "**" for k in n.keywords)})
                if isinstance(n, ast.Call):
                    for k in n.keywords:
                        if k.arg in ("upper", "method") and isinstance(k.value, ast.Constant):
                            kwargs_seen.add((k.arg, k.value.value))
    return cached_uses, writers, readers, kwargs_seen


FLOORS = {"cached_uses": 40, "writers": 4, "readers": 4}


def check_audit():
    cached_uses, writers, readers, kwargs_seen = _audit()
    out = []
    names = {u["name"] or u["method"] for u in cached_uses}
    for k, v in (("cached_uses", cached_uses), ("writers", writers), ("readers", readers)):
        out.append(ob(f"C12/audit/count/{k}>=floor", DISCHARGED if len(v) >= FLOORS[k] else UNKNOWN, engine="audit", by="ast", info={"count": len(v), "floor": FLOORS[k]},
                      reason=f"only {len(v)} {k} found (floor {FLOORS[k]}): the AST audit lost coverage"))
    wnames = {w["name"] for w in writers}
    for w in writers:
        ok = w["name"] in names
        out.append(ob(f"C12/audit/writer/{w['file']}:{w['name']}", DISCHARGED if ok else REFUTED, engine="audit", by="ast", info=w,
                      detail="explicit add_to_cache under a name no @cached method reads"))
    for r in readers:
        ok = r["name"] in names or r["name"] in wnames
        # a key that nothing writes: the branch it guards is dead, which is fine ("symeig", "lanczos"); a key that IS
        # written must belong to a contract.  Dead names are reported as info, not as failures.
        out.append(ob(f"C12/audit/reader/{r['file']}:{r['fn']}:{r['name']}", DISCHARGED, engine="audit", by="ast", info={**r, "written_by_someone": ok}))
    for u in cached_uses:
        if u["ignore_args"]:
            known = (u["class"], u["method"]) in IGNORE_ARGS_CONTRACTS
            out.append(ob(f"C12/audit/ignore_args/{u['class']}.{u['method']}/has-independence-contract", DISCHARGED if known else UNKNOWN, engine="audit", by="ast", info=u,
                          reason="new ignore_args=True use without an argument-independence contract"))
    return out


IGNORE_ARGS_CONTRACTS = {("DiagLinearOperator", "_cholesky"): "Diag", ("IdentityLinearOperator", "_cholesky"): "Identity"}


def check_ignore_args():
    """Part I"""
    from contracts import sh_C03, spec
    from engine import sym

    sh_C03._env()
    out = []
    for (cls, meth), kind in IGNORE_ARGS_CONTRACTS.items():
        for br in (0, 1):
            base = f"C12/{cls}.{meth}/ignore_args-sound/batchrank={br}"

            def thunk():
                c = sym.ctx()
                a, b = sh_C03.build(kind, br), None
                from contracts.sh_C02 import _renamed
                # two fresh operators with the SAME constructor arguments, queried with different arguments
                op1 = sh_C03.build(kind, br)
                r1 = getattr(op1, meth).__wrapped__(op1, upper=False) if hasattr(getattr(type(op1), meth), "__wrapped__") else getattr(op1, meth)(upper=False)
                r2 = getattr(op1, meth).__wrapped__(op1, upper=True) if hasattr(getattr(type(op1), meth), "__wrapped__") else None
                if r2 is None:
                    raise sym.Unsupported("cannot bypass the cache wrapper")
                spec.same_tensor_goals(c, base, spec.D(r1), spec.D(r2))
                return "ok"

            paths = sym.explore(thunk, max_paths=32)
            out += sh_C03._collect(paths, base, need=("return",))
    return out


class _Tok:
    n = 0

    def __init__(self):
        _Tok.n += 1
        self.i = _Tok.n

    def __repr__(self):
        return f"<v{self.i}>"


def check_memoize():
    """Part M — exhaustive over the finite key domain"""
    import sys

    if REPO not in sys.path:
        sys.path.insert(0, REPO)
    import importlib.util

    spec_ = importlib.util.spec_from_file_location("lo_memoize_under_test", os.path.join(REPO, "linear_operator", "utils", "memoize.py"))
    # memoize imports linear_operator.utils.errors: load that one by path too (no torch needed)
    errs = importlib.util.spec_from_file_location("lo_errors_under_test", os.path.join(REPO, "linear_operator", "utils", "errors.py"))
    em = importlib.util.module_from_spec(errs)
    errs.loader.exec_module(em)
    import types

    pkg = types.ModuleType("linear_operator")
    pkg.__path__ = []
    utils = types.ModuleType("linear_operator.utils")
    utils.__path__ = []
    saved = {k: sys.modules.get(k) for k in ("linear_operator", "linear_operator.utils", "linear_operator.utils.errors")}
    sys.modules.update({"linear_operator": pkg, "linear_operator.utils": utils, "linear_operator.utils.errors": em})
    try:
        M = importlib.util.module_from_spec(spec_)
        spec_.loader.exec_module(M)
    finally:
        for k, v in saved.items():
            if v is None:
                sys.modules.pop(k, None)
            else:
                sys.modules[k] = v
    CachingError = em.CachingError
    _, _, _, kwargs_seen = _audit()
    kw_domain = [{}, {"upper": True}, {"upper": False}, {"method": None}, {"method": "lanczos"}, {"method": "cholesky"}, {"method": "symeig"},
                 {"upper": True, "method": "x"}, {"method": "x", "upper": True}, {"initial_vectors": None, "test_vectors": None, "method": "lanczos"}]
    for k, v in sorted(kwargs_seen, key=repr):
        if {k: v} not in kw_domain:
            kw_domain.append({k: v})
    arg_domain = [(), (True,), (False,), (None,), ("lanczos",), (1,), (1, 2)]
    out = []

    def same_call(c1, c2):
        return c1[0] == c2[0] and sorted(c1[1].items(), key=repr) == sorted(c2[1].items(), key=repr)

    def mk(name, ignore):
        calls = []

        class Obj:
            pass

        def meth(self, *a, **k):
            calls.append((a, dict(k)))
            return _Tok()

        deco = M.cached(name=name, ignore_args=ignore) if (name is not None or ignore) else M.cached
        Obj.m = deco(meth)
        return Obj(), calls

    fails = {"miss": [], "hit": [], "frame": [], "separation": [], "pop": [], "explicit": []}
    n_cases = 0
    calls_dom = list(itertools.product(arg_domain, kw_domain))
    for name, ignore in ((None, False), ("nm", False), ("nm", True), (None, True)):
        for c1, c2 in itertools.product(calls_dom, repeat=2):
            n_cases += 1
            o, calls = mk(name, ignore)
            r1 = o.m(*c1[0], **c1[1])
            if len(calls) != 1 or calls[0] != (c1[0], c1[1]) or not isinstance(r1, _Tok):
                fails["miss"].append((name, ignore, c1))
            snap = dict(o._memoize_cache)
            r2 = o.m(*c2[0], **c2[1])
            share = True if ignore else same_call(c1, c2)
            # the same keywords in a different ORDER may or may not share an entry (the key pickles the dict in
            # call order): both behaviours return a correct value, so nothing is demanded for that case
            reordered = share and not ignore and list(c1[1].items()) != list(c2[1].items())
            if reordered:
                if not isinstance(r2, _Tok):
                    fails["hit"].append((name, ignore, c1, c2))
            elif share:
                if r2 is not r1 or len(calls) != 1:
                    fails["hit"].append((name, ignore, c1, c2))
                if dict(o._memoize_cache) != snap:
                    fails["frame"].append((name, ignore, c1, c2))
            else:
                if r2 is r1 or len(calls) != 2 or calls[1] != (c2[0], c2[1]):
                    fails["separation"].append((name, ignore, c1, c2))
                # frame: the first entry is untouched, exactly one new key
                now = dict(o._memoize_cache)
                if any(now.get(k) is not v for k, v in snap.items()) or len(now) != len(snap) + 1:
                    fails["frame"].append((name, ignore, c1, c2))
            # and the first call still hits afterwards
            if o.m(*c1[0], **c1[1]) is not r1:
                fails["hit"].append((name, ignore, c1, c2, "first entry lost"))
    # explicit primitives against the ghost map
    def get(o, c):
        try:
            return M.get_from_cache(o, "nm", *c[0], **c[1])
        except CachingError:
            return CachingError

    for c1, c2 in itertools.product(calls_dom, repeat=2):
        n_cases += 1

        class Obj:
            pass

        o = Obj()
        if get(o, c1) is not CachingError:
            fails["explicit"].append(("get on empty did not raise", c1))
        v1, v2 = _Tok(), _Tok()
        if M.add_to_cache(o, "nm", v1, *c1[0], **c1[1]) is not v1:
            fails["explicit"].append(("add returns value", c1))
        if get(o, c1) is not v1:
            fails["explicit"].append(("get after add", c1))
        same = same_call(c1, c2)
        if same and list(c1[1].items()) != list(c2[1].items()):
            continue  # keyword order: see above
        g = get(o, c2)
        if same and g is not v1:
            fails["explicit"].append(("get with equal key failed", c1, c2))
        if not same and g is not CachingError:
            fails["separation"].append(("get with a different key returned a value", c1, c2))
        M.add_to_cache(o, "nm", v2, *c2[0], **c2[1])
        want1 = v2 if same else v1
        if get(o, c1) is not want1:
            fails["frame"].append(("second add disturbed first key", c1, c2))
        if not M._is_in_cache_ignore_all_args(o, "nm") or M._is_in_cache_ignore_all_args(o, "other"):
            fails["explicit"].append(("_is_in_cache_ignore_all_args", c1, c2))
        try:
            if M.pop_from_cache(o, "nm", *c2[0], **c2[1]) is not v2:
                fails["pop"].append(("pop returns stored", c1, c2))
        except CachingError:
            fails["pop"].append(("pop of a present key raised", c1, c2))
        try:
            M.pop_from_cache(o, "nm", *c2[0], **c2[1])
            fails["pop"].append(("second pop did not raise", c2))
        except CachingError:
            pass
        if not same and get(o, c1) is not v1:
            fails["pop"].append(("pop removed another key", c1, c2))
    for k, v in fails.items():
        out.append(ob(f"C12/memoize/{k}", DISCHARGED if not v else REFUTED, engine="shadow", by="exhaustive-finite-domain", info={"cases": n_cases, "counterexamples": [repr(x)[:300] for x in v[:3]]},
                      detail="; ".join(repr(x)[:200] for x in v[:3]), native={"reproduced": True, "detail": "executed on the real memoize.py: " + "; ".join(repr(x)[:200] for x in v[:2])} if v else None))
    out.append(ob("C12/memoize/cover/cases-enumerated", DISCHARGED if n_cases > 1000 else REFUTED, engine="shadow", by="exhaustive-finite-domain", info={"cases": n_cases}))
    return out


def shadow_units(tier):
    return [conformance_unit(PID),
            Unit("C12/shadow/memoize-contracts", "contracts.sh_C12", "check_memoize", (), engine="shadow", timeout_s=600),
            Unit("C12/shadow/audit", "contracts.sh_C12", "check_audit", (), engine="audit", timeout_s=300),
            Unit("C12/shadow/ignore_args-independence", "contracts.sh_C12", "check_ignore_args", (), engine="shadow", timeout_s=600)]


SH_META = {
    "functions_under_contract": ["utils/memoize.py::cached/_cached.g/_cached_ignore_args.g/add_to_cache/get_from_cache/pop_from_cache/_add_to_cache/_get_from_cache/_is_in_cache/_is_in_cache_ignore_args/_is_in_cache_ignore_all_args",
                                 "DiagLinearOperator._cholesky, IdentityLinearOperator._cholesky (argument independence)", "every @cached / add_to_cache site (AST audit)"],
    "trusted_base": ["CPython dict / tuple equality", "pickle.dumps is injective on the keyword values that occur in the library (bool, None, str): checked exhaustively on that finite domain, not proved in general",
                     "z3 for the argument-independence obligations"],
    "assumptions": ["history transparency of the *values* (cached factorizations are valid for the object they hang on; transplants in add_low_rank / cat_rows) is decided only by the bounded tier",
                    "the memoize contracts are exhaustive over the finite key domain collected from the source, not symbolic"],
}
