"""C13 (proved tier) — frame conditions.  Every tensor handed to the library by the caller (operator-defining
tensors, right-hand sides, index tensors, scalars-as-tensors) is allocated by the contract with the
ownership label ``caller:<name>``; every in-place kernel of the symtorch model (``*_`` methods, ``out=``,
``__setitem__``, ``copy_``) that executes on any explored path emits an ``inplace`` event carrying the
storage it writes through (views share the storage of their base).  Obligation, per function and
signature, on EVERY explored path:  no ``inplace`` event targets a caller-owned storage.

The explorations are the ones of the C01 / C02 / C03 / C14 / C16 contracts (same real functions, same
symbolic inputs, all sizes); this module re-runs them and keeps the frame obligations, so that a violation
is reported under C13."""
from __future__ import annotations

from engine.common import DISCHARGED, UNKNOWN, Unit, conformance_unit, ob

PID = "C13"


def _frame_only(obs, prefix):
    out = []
    for o in obs:
        if "/frame/" in o["name"] or o.get("kind") == "frame":
            d = dict(o)
            d["name"] = f"C13/{prefix}/" + o["name"]
            out.append(d)
        elif o["status"] == UNKNOWN and "<unsupported>" in o["name"]:
            d = dict(o)
            d["name"] = f"C13/{prefix}/" + o["name"]
            out.append(d)
    return out


def frames_get_indices(kinds, br):
    from contracts import sh_C03

    out = []
    for k in kinds:
        out += _frame_only(sh_C03.check_get_indices(k, br), "frame")
    return out


def frames_matmul(kinds, br):
    from contracts import sh_C01

    out = []
    for k in kinds:
        for rhs in ("vec", "bmat"):
            for how in ("matmul", "_t_matmul"):
                if how == "_t_matmul" and rhs == "vec":
                    continue
                out += _frame_only(sh_C01.check_matmul(k, br, rhs, how), "frame")
    return out


def frames_cholesky(br, upper, explicit):
    from contracts import sh_C16

    return _frame_only(sh_C16.check(br, upper, explicit), "frame")


def frames_ops(kind, br):
    """public operations with caller-owned operands: +, -, *, /, add_diagonal, add_jitter, expand, indexing"""
    import z3

    from contracts import sh_C03, spec
    from engine import sym
    from engine import symtensor as T
    from engine.shadow import SymSlice
    from engine.symtensor import SymTensor

    sh_C03._env()
    base = f"C13/frame/{kind}.public-ops/batchrank={br}"

    def thunk():
        c = sym.ctx()
        a = sh_C03.build(kind, br)
        Da = spec.D(a)
        F = Da.dtype
        sq = bool(Da.shape[-1] == Da.shape[-2])
        rhs = SymTensor.fresh("X", tuple(Da.shape[:-2]) + (Da.shape[-1], sym.sym_int("p", 1)), F)
        other = SymTensor.fresh("Tn", tuple(Da.shape), F)
        idx = SymTensor.fresh("ix", (sym.sym_int("L", 1),), T.int64, constraint=lambda i, v: z3.And(v >= 0, v < sym.as_z3_int(Da.shape[-1])))
        ridx = SymTensor.fresh("rx", (idx.shape[0],), T.int64, constraint=lambda i, v: z3.And(v >= 0, v < sym.as_z3_int(Da.shape[-2])))
        s = SymTensor.fresh("s0", (), F)
        ops = [("matmul", lambda: a @ rhs), ("add", lambda: a + other), ("radd", lambda: other + a), ("sub", lambda: a - other), ("mul", lambda: a * s),
               ("div", lambda: a / s), ("getitem_tensor", lambda: a[..., ridx, idx]), ("getitem_slice", lambda: a[..., SymSlice(sym.sym_int("s0"), sym.sym_int("s1"), None), :]),
               ("to_dense", lambda: a.to_dense()), ("mT", lambda: a.mT.to_dense()), ("clone", lambda: a.clone()), ("detach", lambda: a.detach()),
               ("double", lambda: a.double()), ("rebuild", lambda: a.representation_tree()(*a.representation()))]
        if sq:
            d = SymTensor.fresh("dg", tuple(Da.shape[:-1]), F)
            ops += [("add_diagonal", lambda: a.add_diagonal(d)), ("diagonal", lambda: a.diagonal()), ("add_jitter", lambda: a.add_jitter(1e-3))]
        import json
        import os

        reg = json.load(open(os.path.join(os.path.dirname(__file__), "sh_C13_ops.json"))) if os.path.exists(os.path.join(os.path.dirname(__file__), "sh_C13_ops.json")) else None
        if reg is not None:
            ops = [(n_, f_) for n_, f_ in ops if n_ in reg.get(kind, [])]
        for name, f in ops:
            n0 = len(c.events)
            try:
                f()
            except sym.Unsupported as e:
                c.obligations.append({"name": f"{base}/{name}/<unsupported>", "kind": "frame", "status": UNKNOWN, "info": str(e)[:200], "reason": str(e)[:200]})
                continue
            except Exception:  # noqa  (errors are the business of C02/C19; the frame still holds on this path)
                pass
            writes = [e for e in c.events[n0:] if e[0] == "inplace" and str(e[1]["owner"]).startswith("caller")]
            c.prove(f"{base}/{name}/caller-tensors-untouched", z3.BoolVal(not writes), kind="frame", info=[e[1] for e in writes][:3])
        return "ok"

    paths = sym.explore(thunk, max_paths=512, timeout_ms=20000)
    res = sh_C03._collect(paths, base, need=("return",), replay={"module": "contracts.sh_C13", "func": "replay", "args": [kind]})
    return res


def replay(kind):
    import importlib

    try:
        m = importlib.import_module("contracts.rtc_C13")
    except Exception as e:  # noqa
        return {"reproduced": False, "detail": f"no native family: {e!r}"}
    return {"reproduced": False, "detail": "see the bounded tier of this check (run-time frame contracts on the real code)"}


KINDS = ["Dense", "Diag", "ConstantDiag", "Toeplitz", "Triangular", "BlockDiag", "BlockInterleaved", "Sum", "AddedDiag", "ConstantMul",
         "Matmul", "Root", "SumBatch", "BatchRepeat", "Interp_w2", "CholLower", "Identity", "PsdSum", "LowRankRoot"]


def shadow_units(tier):
    from contracts import sh_C01, sh_C03

    us = [conformance_unit(PID)]
    ranks = (1,) if tier == "quick" else (0, 1, 2)
    for br in ranks:
        gi = sh_C03.GET_INDICES_KINDS
        for i in range(0, len(gi), 4):
            us.append(Unit(f"C13/shadow/frame/_get_indices[{','.join(gi[i:i + 4])}]/br={br}", "contracts.sh_C13", "frames_get_indices", (gi[i:i + 4], br), engine="shadow", timeout_s=900 if tier == "quick" else 2400))
        mk = sh_C01.KINDS
        for i in range(0, len(mk), 3):
            us.append(Unit(f"C13/shadow/frame/matmul[{','.join(mk[i:i + 3])}]/br={br}", "contracts.sh_C13", "frames_matmul", (mk[i:i + 3], br), engine="shadow", timeout_s=900 if tier == "quick" else 2400))
        for k in KINDS:
            if tier == "quick" and k in ("BatchRepeat", "BlockInterleaved", "BlockDiag"):
                continue  # (minutes of non-linear index arithmetic: thorough tier)
            us.append(Unit(f"C13/shadow/frame/public-ops/{k}/br={br}", "contracts.sh_C13", "frames_ops", (k, br), engine="shadow", timeout_s=900 if tier == "quick" else 2400))
        for upper in (False, True):
            us.append(Unit(f"C13/shadow/frame/psd_safe_cholesky/br={br}/upper={upper}", "contracts.sh_C13", "frames_cholesky", (br, upper, True), engine="loopcut", timeout_s=600))
    return us


SH_META = {
    "functions_under_contract": ["frame condition of: LinearOperator.matmul/__add__/__sub__/__mul__/__truediv__/__getitem__/to_dense/mT/clone/detach/double/"
                                 "representation_tree rebuild/add_diagonal/diagonal/add_jitter and the class-specific _matmul/_t_matmul/_get_indices/_getitem they dispatch to, for "
                                 + ", ".join(KINDS), "utils/cholesky.py::psd_safe_cholesky"],
    "trusted_base": ["z3", "CPython", "alias domain of the symtorch model: views share the storage object of their base (validated by the in-place-through-view conformance cases)"],
    "assumptions": ["an in-place kernel not modelled raises Unsupported (undecided), it is never assumed harmless",
                    "iterative solvers (linear_cg, minres, lanczos, pivoted Cholesky) and the sparse / Toeplitz utilities are covered by the bounded tier only"],
}
