"""C14 (proved tier) — copies, conversions and rebuilds on the REAL base-class machinery
(LinearOperator.__init__/representation/representation_tree/clone/detach/to/type/double/float/
requires_grad_ and LinearOperatorRepresentationTree), executed symbolically on operators whose
constructor arguments are symbolic tensors (all sizes, all entries, symbolic dtypes: the operator's float
dtype and torch's default dtype are two unrelated unknowns).

Part G  (generic layouts) a container subclass ``GenOp(*args, **kwargs)`` is instantiated for every
        argument layout of a bounded signature (<= 3 positional, <= 2 keyword; each a float / int / bool
        tensor, a non-tensor, or a sub-operator which itself has 1-3 leaves and optionally keyword leaves):
        rebuild round trip = same structure and the *same leaf objects in the same order*; clone shares no
        storage and preserves values/dtypes; detach; to/type/double/float give every floating leaf the target
        dtype and leave integer / boolean leaves untouched; requires_grad goes to exactly the floating leaves.
Part K  (real classes) for every class of sh_C03.build: rebuild / clone / double / float denote the same
        spec matrix D and keep the class.
"""
from __future__ import annotations

import itertools

import z3

from engine import sym
from engine.common import DISCHARGED, REFUTED, UNKNOWN, Unit, conformance_unit, ob

PID = "C14"

LEAF_KINDS = ["F", "I", "B", "N", "O1", "O2k", "O3"]


def _env():
    from contracts import sh_C03

    sh_C03._env()
    from linear_operator.operators import LinearOperator

    class GenOp(LinearOperator):
        """container operator: stores its arguments exactly as LinearOperator.__init__ captures them"""

        def __init__(self, *args, **kwargs):
            super().__init__(*args, **kwargs)

        def _matmul(self, rhs):
            raise NotImplementedError

        def _size(self):
            return self._args[0].shape if hasattr(self._args[0], "shape") else None

        def _transpose_nonbatch(self):
            raise NotImplementedError

    return GenOp


def _leaf(kind, name, GenOp, F):
    from engine import symtensor as T
    from engine.symtensor import SymTensor

    n = sym.sym_int("n", 1)
    if kind == "F":
        return SymTensor.fresh(name, (n, n), F)
    if kind == "I":
        return SymTensor.fresh(name, (n,), T.int64)
    if kind == "B":
        return SymTensor.fresh(name, (n,), T.bool_)
    if kind == "N":
        return 7
    if kind == "O1":
        return GenOp(SymTensor.fresh(name + ".a", (n, n), F))
    if kind == "O2k":  # sub-operator with a keyword tensor and a keyword non-tensor
        return GenOp(SymTensor.fresh(name + ".a", (n, n), F), idx=SymTensor.fresh(name + ".idx", (n,), T.int64), flag="x")
    if kind == "O3":  # nested one level deeper
        return GenOp(SymTensor.fresh(name + ".a", (n, n), F), GenOp(SymTensor.fresh(name + ".b", (n, n), F), SymTensor.fresh(name + ".c", (n,), T.int64)))
    raise KeyError(kind)


def layouts(tier):
    pos_kinds = ["F", "I", "O1", "O2k"] if tier == "quick" else ["F", "I", "B", "O1", "O2k", "O3"]  # positional arguments must be tensors / operators
    kw_kinds = ["F", "I", "O2k", "N"] if tier == "quick" else ["F", "I", "B", "O1", "O2k", "O3", "N"]
    out = []
    for npos in (1, 2, 3):
        for pos in itertools.product(pos_kinds, repeat=npos):
            if pos[0] not in ("F", "O1", "O2k", "O3"):
                continue  # the first argument defines dtype/device of the operator (base-class convention)
            for nkw in (0, 1, 2):
                for kw in itertools.product(kw_kinds, repeat=nkw):
                    out.append((pos, kw))
    if tier == "quick":
        out = [l for i, l in enumerate(out) if len(l[0]) <= 2 or i % 3 == 0]
    return out


def _flat_leaves(op, LinearOperator, is_tensor):
    """depth-first leaves in representation order (args, then differentiable kwargs sorted by name)"""
    out = []
    kw = [v for k, v in sorted(op._kwargs.items()) if is_tensor(v) or isinstance(v, LinearOperator)]
    for a in list(op._args) + kw:
        if is_tensor(a):
            out.append(a)
        elif isinstance(a, LinearOperator):
            out += _flat_leaves(a, LinearOperator, is_tensor)
    return out


def _same_structure(a, b, LinearOperator, is_tensor, leaf_rel):
    """structural equality of two operators; leaf_rel(x, y) -> list of failure strings for tensor leaves"""
    fails = []
    if type(a) is not type(b):
        return [f"class {type(a).__name__} vs {type(b).__name__}"]
    if len(a._args) != len(b._args):
        return [f"arity {len(a._args)} vs {len(b._args)}"]
    if sorted(a._kwargs) != sorted(b._kwargs):
        return [f"kwargs {sorted(a._kwargs)} vs {sorted(b._kwargs)}"]
    pairs = list(zip(a._args, b._args)) + [(a._kwargs[k], b._kwargs[k]) for k in sorted(a._kwargs)]
    for x, y in pairs:
        if isinstance(x, LinearOperator):
            if not isinstance(y, LinearOperator):
                fails.append(f"sub-operator became {type(y).__name__}")
            else:
                fails += _same_structure(x, y, LinearOperator, is_tensor, leaf_rel)
        elif is_tensor(x):
            if not is_tensor(y):
                fails.append(f"tensor leaf became {type(y).__name__}")
            else:
                fails += leaf_rel(x, y)
        else:
            if x is not y and x != y:
                fails.append(f"non-tensor argument {x!r} became {y!r}")
    return fails


def check_generic(chunk, tier):
    GenOp = _env()
    from engine import symops as SO, symtensor as T
    from linear_operator.operators import LinearOperator

    F = T.sym_dtype("<op-dtype>")
    out = []
    for pos, kw in chunk:
        base = f"C14/GenOp[{','.join(pos)}|{','.join(kw)}]"

        def thunk():
            c = sym.ctx()
            args = [_leaf(k, f"p{i}", GenOp, F) for i, k in enumerate(pos)]
            kwargs = {f"kw{i}": _leaf(k, f"k{i}", GenOp, F) for i, k in enumerate(kw)}
            op = GenOp(*args, **kwargs)
            leaves = _flat_leaves(op, LinearOperator, SO.is_tensor)
            rep = op.representation()
            c.prove(f"{base}/representation/order", z3.BoolVal(len(rep) == len(leaves) and all(a is b for a, b in zip(rep, leaves))),
                    info=f"{len(rep)} vs {len(leaves)}")
            # rebuild round trip: same structure, the very same leaf objects
            re = op.representation_tree()(*rep)
            f = _same_structure(op, re, LinearOperator, SO.is_tensor, lambda x, y: [] if x is y else ["leaf object replaced"])
            c.prove(f"{base}/rebuild/same-structure-same-leaves", z3.BoolVal(not f), info=f[:3])
            ek = op.evaluate_kernel()
            f = _same_structure(op, ek, LinearOperator, SO.is_tensor, lambda x, y: [] if x is y else ["leaf object replaced"])
            c.prove(f"{base}/evaluate_kernel/same-structure-same-leaves", z3.BoolVal(not f), info=f[:3])

            def same_values(x, y):
                if len(x.shape) != len(y.shape):
                    return ["rank"]
                idx = tuple(z3.Int(c.fresh_name(f"t{j}!v")) for j in range(len(x.shape)))
                r = sym.prove_under(c.pc, z3.And(*[sym.as_z3_int(p) == sym.as_z3_int(q) for p, q in zip(x.shape, y.shape)], z3.Implies(x.in_bounds(idx), x.at(*idx) == y.at(*idx))))
                return [] if r["status"] == DISCHARGED else ["value/shape differs"]

            # clone: no shared storage, same dtype, same values
            cl = op.clone()
            f = _same_structure(op, cl, LinearOperator, SO.is_tensor,
                                lambda x, y: (["shares storage"] if x.storage is y.storage else []) + (["dtype"] if x.dtype is not y.dtype else []) + same_values(x, y))
            c.prove(f"{base}/clone/disjoint-storage-same-dtype-same-values", z3.BoolVal(not f), info=f[:3])
            # detach: same values/dtypes, nothing requires grad
            de = op.detach()
            f = _same_structure(op, de, LinearOperator, SO.is_tensor,
                                lambda x, y: (["dtype"] if x.dtype is not y.dtype else []) + (["requires_grad"] if y.requires_grad else []) + same_values(x, y))
            c.prove(f"{base}/detach/same-values-no-grad", z3.BoolVal(not f), info=f[:3])
            # conversions: floating leaves get the target dtype, integer / boolean leaves keep theirs
            for tname, conv, target in (("to(float64)", lambda o: o.to(T.float64), T.float64), ("to(dtype=float32)", lambda o: o.to(dtype=T.float32), T.float32),
                                        ("type(float64)", lambda o: o.type(T.float64), T.float64), ("double()", lambda o: o.double(), T.float64),
                                        ("float()", lambda o: o.float(), T.float32)):
                try:
                    cv = conv(op)
                except sym.Unsupported:
                    raise
                except Exception as e:  # noqa
                    c.prove(f"{base}/{tname}/no-error", z3.BoolVal(False), info=repr(e)[:200] + getattr(e, "__shadow_tb__", ""))
                    continue

                def rel(x, y, target=target):
                    if x.dtype.kind == "f":
                        return ([f"floating leaf has dtype {y.dtype}, expected {target}"] if y.dtype is not target else []) + same_values(x, y)
                    return ([f"{x.dtype} leaf was cast to {y.dtype}"] if y.dtype is not x.dtype else []) + same_values(x, y)
                f = _same_structure(op, cv, LinearOperator, SO.is_tensor, rel)
                c.prove(f"{base}/{tname}/float-leaves-converted-int-bool-leaves-untouched", z3.BoolVal(not f), info=f[:3])
                if target is not F:
                    c.prove(f"{base}/{tname}/source-not-modified", z3.BoolVal(all(l.dtype.kind != "f" or l.dtype is F for l in leaves)))
            # requires_grad_: exactly the floating leaves
            F2 = T.float64  # (membership test `dtype in (float, double, half)` needs a concrete floating dtype)
            op2 = GenOp(*[_leaf(k, f"q{i}", GenOp, F2) for i, k in enumerate(pos)], **{f"kw{i}": _leaf(k, f"r{i}", GenOp, F2) for i, k in enumerate(kw)})
            op2.requires_grad_(True)
            l2 = _flat_leaves(op2, LinearOperator, SO.is_tensor)
            bad = [f"{l.storage.label}:{l.dtype}:{l.requires_grad}" for l in l2 if l.requires_grad != (l.dtype.kind == "f")]
            c.prove(f"{base}/requires_grad_/exactly-floating-leaves", z3.BoolVal(not bad), info=bad[:3])
            return "ok"

        paths = sym.explore(thunk, max_paths=32)
        from contracts.sh_C03 import _collect

        out += _collect(paths, base, need=("return",), replay={"module": "contracts.sh_C14", "func": "replay_generic", "args": [list(pos), list(kw)]})
    return out


def replay_generic(pos, kw):
    """native reproduction with real torch: the same layout on a real container subclass"""
    import os
    import sys

    repo = os.environ.get("VERIF_REPO", "/repo")
    if repo not in sys.path:
        sys.path.insert(0, repo)
    import torch

    from linear_operator.operators import LinearOperator

    class GenOp(LinearOperator):
        def __init__(self, *a, **k):
            super().__init__(*a, **k)

        def _matmul(self, rhs):
            raise NotImplementedError

        def _size(self):
            return self._args[0].shape

        def _transpose_nonbatch(self):
            raise NotImplementedError

    def leaf(kind):
        if kind == "F":
            return torch.randn(3, 3)
        if kind == "I":
            return torch.arange(3)
        if kind == "B":
            return torch.tensor([True, False, True])
        if kind == "N":
            return 7
        if kind == "O1":
            return GenOp(torch.randn(3, 3))
        if kind == "O2k":
            return GenOp(torch.randn(3, 3), idx=torch.arange(3), flag="x")
        return GenOp(torch.randn(3, 3), GenOp(torch.randn(3, 3), torch.arange(3)))

    def flat(o):
        out = []
        for a in list(o._args) + [v for k, v in sorted(o._kwargs.items())]:
            if torch.is_tensor(a):
                out.append(a)
            elif isinstance(a, LinearOperator):
                out += flat(a)
        return out

    def struct(o):
        return (type(o).__name__, tuple(struct(a) if isinstance(a, LinearOperator) else ("T", str(a.dtype)) if torch.is_tensor(a) else ("N", repr(a)) for a in o._args),
                tuple((k, struct(v) if isinstance(v, LinearOperator) else ("T", str(v.dtype)) if torch.is_tensor(v) else ("N", repr(v))) for k, v in sorted(o._kwargs.items())))

    op = GenOp(*[leaf(k) for k in pos], **{f"kw{i}": leaf(k) for i, k in enumerate(kw)})
    fails = []
    try:
        re = op.representation_tree()(*op.representation())
        if struct(re) != struct(op) or any(a is not b for a, b in zip(flat(re), flat(op))):
            fails.append(f"rebuild: {struct(re)} vs {struct(op)}")
    except Exception as e:  # noqa
        fails.append(f"rebuild raised {e!r}")
    for name, conv, target in (("to(float64)", lambda o: o.to(torch.float64), torch.float64), ("type(float64)", lambda o: o.type(torch.float64), torch.float64),
                               ("double()", lambda o: o.double(), torch.float64), ("clone()", lambda o: o.clone(), torch.float32)):
        try:
            cv = conv(op)
            for a, b in zip(flat(op), flat(cv)):
                want = target if a.dtype.is_floating_point else a.dtype
                if b.dtype != want:
                    fails.append(f"{name}: leaf {a.dtype} -> {b.dtype}, expected {want}")
                if name == "clone()" and a.data_ptr() == b.data_ptr():
                    fails.append("clone(): shares storage")
            if struct(cv)[0] != struct(op)[0] or len(flat(cv)) != len(flat(op)):
                fails.append(f"{name}: structure changed")
        except Exception as e:  # noqa
            fails.append(f"{name} raised {e!r}")
    return {"reproduced": bool(fails), "detail": "; ".join(fails[:4]) or "native run of this layout shows no deviation"}


KINDS = ["Dense", "Diag", "ConstantDiag", "Toeplitz", "Triangular", "Kronecker2", "BlockDiag", "BlockInterleaved", "Sum", "AddedDiag", "ConstantMul",
         "Matmul", "Root", "SumBatch", "BatchRepeat", "Interp_w2", "TriangularUpper", "CholLower", "CholUpper", "Identity", "Zero",
         "KroneckerTriangular", "LowRankRoot", "PsdSum"]


def check_class(kind, br):
    from contracts import sh_C03, spec
    from engine import symops as SO, symtensor as T

    sh_C03._env()
    from linear_operator.operators import LinearOperator

    base = f"C14/{kind}/batchrank={br}"

    def thunk():
        c = sym.ctx()
        op = sh_C03.build(kind, br)
        Dm = spec.D(op)
        flags0 = {k: v for k, v in vars(op).items() if isinstance(v, (bool, int, str)) and not k.startswith("_memo")}
        for name, conv, dt in (("rebuild", lambda o: o.representation_tree()(*o.representation()), None), ("clone", lambda o: o.clone(), None),
                               ("detach", lambda o: o.detach(), None), ("float", lambda o: o.float(), T.float32), ("double", lambda o: o.double(), T.float64),
                               ("to(float32)", lambda o: o.to(T.float32), T.float32)):
            try:
                r = conv(op)
            except sym.Unsupported:
                raise
            except Exception as e:  # noqa
                c.prove(f"{base}/{name}/no-error", z3.BoolVal(False), info=repr(e)[:300] + getattr(e, "__shadow_tb__", "")[-600:])
                continue
            c.prove(f"{base}/{name}/same-class", z3.BoolVal(type(r) is type(op)), info=f"{type(r).__name__}")
            flags1 = {k: v for k, v in vars(r).items() if isinstance(v, (bool, int, str)) and not k.startswith("_memo")}
            c.prove(f"{base}/{name}/same-flags", z3.BoolVal(flags0 == flags1), info=f"{flags0} vs {flags1}")
            Dr = spec.D(r)
            spec.same_tensor_goals(c, f"{base}/{name}/same-matrix", Dr, Dm, dtype=False)
            if dt is not None:
                c.prove(f"{base}/{name}/dtype", z3.BoolVal(r.dtype is dt and Dr.dtype is dt), info=f"{r.dtype} / {Dr.dtype}")
                try:
                    ints = [(a, b) for a, b in zip(op.representation(), r.representation()) if a.dtype.kind != "f"]
                except RuntimeError:
                    ints = []  # (representation() itself raising is reported by the rebuild obligation)
                c.prove(f"{base}/{name}/index-tensors-keep-dtype", z3.BoolVal(all(a.dtype is b.dtype for a, b in ints)), info=[f"{a.dtype}->{b.dtype}" for a, b in ints])
        return "ok"

    paths = sym.explore(thunk, max_paths=64, timeout_ms=60000)
    return sh_C03._collect(paths, base, need=("return",), replay={"module": "contracts.sh_C14", "func": "replay_class", "args": [kind]})


def replay_class(kind):
    """native reproduction: rebuild / clone / detach / double / float / to on concrete instances of the class"""
    import os
    import sys

    repo = os.environ.get("VERIF_REPO", "/repo")
    if repo not in sys.path:
        sys.path.insert(0, repo)
    import torch

    from contracts import zoo

    name = {"Dense": "dense_rect", "Diag": "diag", "ConstantDiag": "constdiag", "Toeplitz": "toeplitz", "Triangular": "tri_lower", "TriangularUpper": "tri_upper",
            "Kronecker2": "kron2", "BlockDiag": "blockdiag3", "BlockInterleaved": "blockinterleaved3", "Sum": "sum", "AddedDiag": "addeddiag",
            "ConstantMul": "constmul", "Matmul": "matmul", "Root": "root", "SumBatch": "sumbatch", "BatchRepeat": "batchrepeat2", "Interp_w2": "interp",
            "CholLower": "chol_lower", "CholUpper": "chol_upper", "Identity": "identity", "Zero": "zero_rect", "KroneckerTriangular": "kron_tri",
            "LowRankRoot": "lowrankroot", "PsdSum": "psdsum"}.get(kind)
    if name is None:
        return {"reproduced": False, "detail": "no native family"}
    case = zoo.BY_NAME[name]
    fails = []
    for batch in ((), (2,)):
        for dt in (torch.float32, torch.float64):
            op, dense = case.build(zoo.gen(3), dt, batch, 3)
            for cname, conv, tdt in (("rebuild", lambda o: o.representation_tree()(*o.representation()), dt), ("clone", lambda o: o.clone(), dt), ("detach", lambda o: o.detach(), dt),
                                     ("double", lambda o: o.double(), torch.float64), ("float", lambda o: o.float(), torch.float32), ("to(float64)", lambda o: o.to(torch.float64), torch.float64)):
                try:
                    r = conv(op)
                    d = r.to_dense()
                    if type(r) is not type(op):
                        fails.append(f"{cname}: class {type(r).__name__}")
                    if d.dtype != tdt or r.dtype != tdt:
                        fails.append(f"{cname}: dtype {d.dtype}/{r.dtype}, expected {tdt}")
                    if not zoo.close(d.to(torch.float64), dense.to(torch.float64), dt=torch.float32):
                        fails.append(f"{cname}: dense value changed")
                except Exception as e:  # noqa
                    fails.append(f"{type(op).__name__}(dtype={dt}, batch={batch}).{cname} raised {e!r}"[:200])
    fails = sorted(set(fails))
    return {"reproduced": bool(fails), "detail": "; ".join(fails[:4]) or "native family shows no deviation"}


def shadow_units(tier):
    us = [conformance_unit(PID)]
    ls = layouts(tier)
    chunk = max(1, len(ls) // 24)
    for i in range(0, len(ls), chunk):
        us.append(Unit(f"C14/shadow/generic-layouts[{i}:{i + chunk}]", "contracts.sh_C14", "check_generic", (ls[i:i + chunk], tier), engine="shadow", timeout_s=900))
    for kind in KINDS:
        for br in ((0, 1) if tier == "quick" else (0, 1, 2)):
            us.append(Unit(f"C14/shadow/class/{kind}/br={br}", "contracts.sh_C14", "check_class", (kind, br), engine="shadow", timeout_s=600))
    return us


SH_META = {
    "functions_under_contract": ["LinearOperator.__init__ (arg / kwarg capture)", "LinearOperator.representation", "LinearOperator.representation_tree",
                                 "LinearOperatorRepresentationTree.__init__", "LinearOperatorRepresentationTree.__call__", "LinearOperator.evaluate_kernel",
                                 "LinearOperator.clone", "LinearOperator.detach", "LinearOperator.to", "LinearOperator.type", "LinearOperator.double",
                                 "LinearOperator.float", "LinearOperator.requires_grad_/_set_requires_grad", "utils/generic.py::_to_helper",
                                 "constructors of " + ", ".join(KINDS) + " (idempotence under rebuild)"],
    "trusted_base": ["z3", "CPython", "symtorch models of clone/detach/to (conformance-tested)", "spec table contracts/spec.py"],
    "assumptions": ["layout signature bounded: <= 3 positional and <= 2 keyword arguments, sub-operators nested <= 2 levels (the rebuild is structurally recursive: deeper trees follow by induction over the tree, argued in DESIGN)",
                    "device is not modelled (CPU only)", "half precision not explored"],
}
