"""C15 (proved tier) — dispatch of torch.* on operators.

Part T  AUDIT: the registration decorators are re-extracted from the AST of _linear_operator.py on every run
        and must equal the dictionaries of the imported module (first-argument and second-argument tables);
        counts have floors.
Part R  contract of ``LinearOperator.__torch_function__`` checked EXHAUSTIVELY over the finite space
        (every class of the hierarchy) x (every registered function + unregistered probes) x (operator first /
        second / both) x (kwargs or not) x (foreign type present or not), on the REAL router with every target
        method replaced by a recorder:
           operator first, registered, types within {Tensor, LinearOperator}  =>  returns method(*args, **kwargs)
                                                                                     of the class of args[0] (resolved by name);
           operator not first, registered in the second-argument table         =>  returns method(args[1], args[0], *args[2:], **kwargs);
           every other case                                                       =>  raises NotImplementedError (never densifies).
        plus: every registered name resolves to a callable on every subclass and its signature accepts the call
        shape the router makes for that torch function.
Part V  values of the reflected / keyword forms on a dense-backed symbolic operator (SHADOW, all sizes):
        torch.add/sub(op, t[, alpha]), torch.add/sub/mul/matmul(t, op), t + op, t - op, t * op, t @ op, op / s
        against the dense expression with the right order and sign.
"""
from __future__ import annotations

import ast
import inspect
import itertools
import os

import z3

from engine.common import DISCHARGED, REFUTED, UNKNOWN, REPO, Unit, conformance_unit, ob

PID = "C15"
FLOORS = {"first": 25, "second": 8}


def _ast_tables():
    path = os.path.join(REPO, "linear_operator", "operators", "_linear_operator.py")
    tree = ast.parse(open(path).read())
    first, second = {}, {}

    def dotted(n):
        parts = []
        while isinstance(n, ast.Attribute):
            parts.append(n.attr)
            n = n.value
        if isinstance(n, ast.Name):
            parts.append(n.id)
        return ".".join(reversed(parts))

    for cls in [n for n in ast.walk(tree) if isinstance(n, ast.ClassDef) and n.name == "LinearOperator"]:
        for node in cls.body:
            if isinstance(node, ast.FunctionDef):
                for d in node.decorator_list:
                    if isinstance(d, ast.Call) and isinstance(d.func, ast.Name) and d.func.id.startswith("_implements"):
                        fn = dotted(d.args[0])
                        if d.func.id in ("_implements", "_implements_symmetric"):
                            first[fn] = node.name
                        if d.func.id in ("_implements_second_arg", "_implements_symmetric"):
                            second[fn] = node.name
    return first, second


def _resolve(torch, name):
    o = torch
    for p in name.split(".")[1:]:
        o = getattr(o, p)
    return o


def check_tables_and_routing():
    import sys

    if REPO in sys.path:
        sys.path.remove(REPO)
    sys.path.insert(0, REPO)
    import torch

    import linear_operator
    from linear_operator.operators import _linear_operator as LOM
    from linear_operator.operators import LinearOperator

    assert os.path.abspath(linear_operator.__file__).startswith(os.path.abspath(REPO))
    out = []
    first, second = _ast_tables()
    t1 = {k: v for k, v in LOM._HANDLED_FUNCTIONS.items()}
    t2 = {k: v for k, v in LOM._HANDLED_SECOND_ARG_FUNCTIONS.items()}
    ast1 = {_resolve(torch, k): v for k, v in first.items()}
    ast2 = {_resolve(torch, k): v for k, v in second.items()}
    out.append(ob("C15/tables/first-arg/ast==module", DISCHARGED if ast1 == t1 else REFUTED, engine="audit", by="ast", info={"ast": len(ast1), "module": len(t1)},
                  detail=f"differs: {set(ast1.items()) ^ set(t1.items())}"[:500]))
    out.append(ob("C15/tables/second-arg/ast==module", DISCHARGED if ast2 == t2 else REFUTED, engine="audit", by="ast", info={"ast": len(ast2), "module": len(t2)},
                  detail=f"differs: {set(ast2.items()) ^ set(t2.items())}"[:500]))
    out.append(ob("C15/tables/count>=floor", DISCHARGED if len(t1) >= FLOORS["first"] and len(t2) >= FLOORS["second"] else UNKNOWN, engine="audit", by="ast",
                  info={"first": len(t1), "second": len(t2)}, reason="dispatch tables shrank below the recorded floor"))

    # class hierarchy
    import linear_operator.operators as ops

    classes = set()

    def walk(c):
        for s in c.__subclasses__():
            if s.__module__.startswith("linear_operator") and "keops" not in s.__module__.lower():
                classes.add(s)
                walk(s)

    walk(LinearOperator)
    classes.add(LinearOperator)
    classes = sorted(classes, key=lambda c: c.__name__)

    # call shapes the router makes: (n positional incl. the operator, kwargs)
    shapes = {"default1": (1, {}), "default2": (2, {})}
    arity = {torch.add: [(2, {}), (2, {"alpha": 2.0})], torch.sub: [(2, {}), (2, {"alpha": 2.0})], torch.mul: [(2, {})], torch.div: [(2, {})], torch.matmul: [(2, {})],
             torch.diagonal: [(1, {}), (1, {"offset": 0, "dim1": -2, "dim2": -1})], torch.sum: [(1, {}), (2, {})], torch.prod: [(2, {})], torch.squeeze: [(2, {})],
             torch.unsqueeze: [(2, {})], torch.transpose: [(3, {})], torch.permute: [(2, {})], torch.isclose: [(2, {}), (2, {"rtol": 1e-5, "atol": 1e-8, "equal_nan": False})],
             torch.linalg.solve: [(2, {})], torch.linalg.solve_triangular: [(2, {"upper": False})], torch.linalg.cholesky: [(1, {}), (1, {"upper": True})],
             torch.linalg.eigh: [(1, {})], torch.linalg.eigvalsh: [(1, {})], torch.linalg.svd: [(1, {})]}
    unary = [(1, {})]
    sig_fail, res_fail, n_sig = [], [], 0
    for c in classes:
        for tab, swap in ((t1, False), (t2, True)):
            for f, name in tab.items():
                m = getattr(c, name, None)
                if m is None or not callable(m):
                    res_fail.append(f"{c.__name__}.{name} for {getattr(f, '__name__', f)}")
                    continue
                for npos, kw in arity.get(f, [(2, {})] if swap else unary):
                    n_sig += 1
                    try:
                        inspect.signature(m).bind(*([object()] * npos), **kw)
                    except TypeError as e:
                        sig_fail.append(f"{c.__name__}.{name}{'(second-arg)' if swap else ''} cannot take {npos} positional + {sorted(kw)}: {e}")
    out.append(ob("C15/resolve/every-registered-name-on-every-class", DISCHARGED if not res_fail else REFUTED, engine="audit", by="exhaustive", info={"classes": len(classes), "fails": res_fail[:5]},
                  detail="; ".join(res_fail[:5])))
    by_method = {}
    for tab in (t1, t2):
        for f, name in tab.items():
            by_method.setdefault(name, [])
    for msg in sig_fail:
        nm = msg.split(".")[1].split("(")[0].split(" ")[0]
        by_method.setdefault(nm, []).append(msg)
    for nm, msgs in sorted(by_method.items()):
        out.append(ob(f"C15/signature/{nm}/accepts-the-router-call-on-every-class", DISCHARGED if not msgs else REFUTED, engine="audit", by="exhaustive", info={"fails": msgs[:4]},
                      detail="; ".join(msgs[:4]), native={"reproduced": True, "detail": "; ".join(msgs[:3])} if msgs else None))

    # routing on the real __torch_function__ with recorder methods
    route_fail, n_route = [], 0
    probes_unreg = [torch.trace, torch.cumsum, torch.tanh, torch.linalg.inv, torch.kron, torch.outer]

    class Foreign:
        pass

    for c in classes:
        rec = []

        def mk(nm):
            def r(*a, **k):
                rec.append((nm, a, k))
                return ("ret", nm)
            return r

        names = set(t1.values()) | set(t2.values())
        sub = type("Rec_" + c.__name__, (c,), {n: mk(n) for n in names})
        opA, opB = object.__new__(sub), object.__new__(sub)
        ten = torch.zeros(1)
        for f in list(t1) + list(t2) + probes_unreg:
            for form in ("op_first", "op_first_op", "tensor_first", "op_first_extra", "tensor_first_extra"):
                for kw in ({}, {"alpha": 3.0}):
                    for foreign in (False, True):
                        args = {"op_first": (opA, ten), "op_first_op": (opA, opB), "tensor_first": (ten, opA), "op_first_extra": (opA, ten, 5), "tensor_first_extra": (ten, opA, 5)}[form]
                        types_ = tuple({type(a) for a in args if isinstance(a, (torch.Tensor, LinearOperator))} | ({Foreign} if foreign else set()))
                        rec.clear()
                        n_route += 1
                        try:
                            r = sub.__torch_function__(f, types_, args, dict(kw) if kw else None)
                            raised = None
                        except NotImplementedError as e:
                            r, raised = None, e
                        except Exception as e:  # noqa
                            route_fail.append(f"{c.__name__} {getattr(f, '__name__', f)} {form}: unexpected {e!r}")
                            continue
                        first_is_op = isinstance(args[0], LinearOperator)
                        if first_is_op and f in t1 and not foreign:
                            want = (t1[f], args, kw)
                        elif (not first_is_op) and f in t2 and not foreign:
                            want = (t2[f], (args[1], args[0]) + tuple(args[2:]), kw)
                        else:
                            want = None
                        if want is None:
                            if raised is None:
                                route_fail.append(f"{c.__name__} {getattr(f, '__name__', f)} {form} foreign={foreign}: expected NotImplementedError, got {r!r} via {rec[:1]}")
                        else:
                            ok = raised is None and len(rec) == 1 and rec[0][0] == want[0] and len(rec[0][1]) == len(want[1]) and all(x is y for x, y in zip(rec[0][1], want[1])) and rec[0][2] == want[2] and r == ("ret", want[0])
                            if not ok:
                                route_fail.append(f"{c.__name__} {getattr(f, '__name__', f)} {form} kw={kw}: expected {want[0]}{tuple(type(x).__name__ for x in want[1])}, got {rec[:1] or raised!r}")
    out.append(ob("C15/router/__torch_function__-contract", DISCHARGED if not route_fail else REFUTED, engine="audit", by="exhaustive", info={"cases": n_route, "fails": route_fail[:5]},
                  detail="; ".join(route_fail[:5]), native={"reproduced": True, "detail": "real router, recorder methods: " + "; ".join(route_fail[:3])} if route_fail else None))
    out.append(ob("C15/router/cover/cases-enumerated", DISCHARGED if n_route > 5000 else REFUTED, engine="audit", by="exhaustive", info={"cases": n_route, "classes": len(classes)}))
    return out


FORMS = ["add(op,t)", "add(op,t,alpha)", "sub(op,t)", "sub(op,t,alpha)", "add(t,op)", "sub(t,op)", "mul(t,op)", "mul(op,t0d)", "matmul(t,op)", "t+op", "t-op", "t*s-op", "t@op", "op/s",
           "div(op,s)", "op.add(t,alpha)", "op.sub(t,alpha)", "neg-via-rsub", "add(t,op,alpha)", "sub(t,op,alpha)", "diagonal(op)", "transpose(op,-1,-2)", "numel(op)", "clone(op)", "unsqueeze(op,0)"]


def check_values(form, br):
    from contracts import sh_C03, spec
    from engine import shadow, sym, symops as SO, symtensor as T
    import engine.symtorch as ST
    from engine.symtensor import SymTensor

    sh_C03._env()
    torch = shadow.torch()
    from linear_operator.operators import LinearOperator

    base = f"C15/values/{form}/batchrank={br}"

    def thunk():
        c = sym.ctx()
        a = sh_C03.build("Dense", br)
        Da = spec.D(a)
        F = Da.dtype
        t = SymTensor.fresh("Tn", tuple(Da.shape), F)
        tl = SymTensor.fresh("Tl", tuple(Da.shape[:-2]) + (sym.sym_int("q", 1), Da.shape[-2]), F)
        s = sym.SymReal("s")
        c.assume(s != 0)
        t0 = SymTensor.fresh("s0", (), F, constraint=lambda i, v: v != 0)  # (division by an exact zero is outside the real-arithmetic model)
        lib, dense = {
            "add(op,t)": (lambda: torch.add(a, t), lambda: ST.add(Da, t)),
            "add(op,t,alpha)": (lambda: torch.add(a, t, alpha=s), lambda: ST.add(Da, ST.mul(t, s))),
            "sub(op,t)": (lambda: torch.sub(a, t), lambda: ST.sub(Da, t)),
            "sub(op,t,alpha)": (lambda: torch.sub(a, t, alpha=s), lambda: ST.sub(Da, ST.mul(t, s))),
            "add(t,op)": (lambda: torch.add(t, a), lambda: ST.add(t, Da)),
            "sub(t,op)": (lambda: torch.sub(t, a), lambda: ST.sub(t, Da)),
            "mul(t,op)": (lambda: torch.mul(t, a), lambda: ST.mul(t, Da)),
            "mul(op,t0d)": (lambda: torch.mul(a, t0), lambda: ST.mul(Da, t0)),
            "matmul(t,op)": (lambda: torch.matmul(tl, a), lambda: SO.matmul(tl, Da)),
            "t+op": (lambda: t + a, lambda: ST.add(t, Da)),
            "t-op": (lambda: t - a, lambda: ST.sub(t, Da)),
            "t*s-op": (lambda: ST.mul(t, s) - a, lambda: ST.sub(ST.mul(t, s), Da)),
            "t@op": (lambda: tl @ a, lambda: SO.matmul(tl, Da)),
            "op/s": (lambda: a / s, lambda: ST.div(Da, s)),
            "div(op,s)": (lambda: torch.div(a, t0), lambda: ST.div(Da, t0)),
            "op.add(t,alpha)": (lambda: a.add(t, alpha=s), lambda: ST.add(Da, ST.mul(t, s))),
            "op.sub(t,alpha)": (lambda: a.sub(t, alpha=s), lambda: ST.sub(Da, ST.mul(t, s))),
            "neg-via-rsub": (lambda: a.__rsub__(t), lambda: ST.sub(t, Da)),
            "add(t,op,alpha)": (lambda: torch.add(t, a, alpha=s), lambda: ST.add(t, ST.mul(Da, s))),
            "sub(t,op,alpha)": (lambda: torch.sub(t, a, alpha=s), lambda: ST.sub(t, ST.mul(Da, s))),
            "diagonal(op)": (lambda: torch.diagonal(a, dim1=-2, dim2=-1), lambda: SO.diagonal(Da, dim1=-2, dim2=-1)),
            "transpose(op,-1,-2)": (lambda: torch.transpose(a, -1, -2), lambda: SO.transpose(Da, -1, -2)),
            "numel(op)": (lambda: torch.numel(a), lambda: Da.numel()),
            "clone(op)": (lambda: torch.clone(a), lambda: Da),
            "unsqueeze(op,0)": (lambda: torch.unsqueeze(a, 0), lambda: SO.unsqueeze(Da, 0)),
        }[form]
        if form == "diagonal(op)":
            c.assume(Da.shape[-1] == Da.shape[-2])
        exp = dense()
        try:
            got, ge = lib(), None
        except sym.Unsupported:
            raise
        except Exception as e:  # noqa
            got, ge = None, e
        c.prove(f"{base}/no-error", z3.BoolVal(ge is None), info=(repr(ge)[:300] + getattr(ge, "__shadow_tb__", "")[-700:]) if ge is not None else None)
        if ge is not None:
            return "raise"
        if form == "numel(op)":
            c.prove(f"{base}/value", sym.as_z3_int(got) == sym.as_z3_int(exp))
            return "return"
        gd = spec.D(got) if isinstance(got, LinearOperator) else got
        spec.same_tensor_goals(c, base, gd, exp, dtype=False)
        return "return"

    paths = sym.explore(thunk, max_paths=64, timeout_ms=20000)
    return sh_C03._collect(paths, base, need=("return",), replay={"module": "contracts.sh_C15", "func": "replay_values", "args": [form]})


def replay_values(form):
    import sys

    if REPO not in sys.path:
        sys.path.insert(0, REPO)
    import torch

    from linear_operator.operators import DenseLinearOperator, LinearOperator

    g = torch.Generator().manual_seed(0)
    fails = []
    for batch in ((), (2,)):
        A = torch.randn(*batch, 3, 3, generator=g, dtype=torch.float64)
        t = torch.randn(*batch, 3, 3, generator=g, dtype=torch.float64)
        tl = torch.randn(*batch, 2, 3, generator=g, dtype=torch.float64)
        a, s, t0 = DenseLinearOperator(A), 1.7, torch.tensor(1.3, dtype=torch.float64)
        lib, dense = {
            "add(op,t)": (lambda: torch.add(a, t), lambda: A + t), "add(op,t,alpha)": (lambda: torch.add(a, t, alpha=s), lambda: A + s * t),
            "sub(op,t)": (lambda: torch.sub(a, t), lambda: A - t), "sub(op,t,alpha)": (lambda: torch.sub(a, t, alpha=s), lambda: A - s * t),
            "add(t,op)": (lambda: torch.add(t, a), lambda: t + A), "sub(t,op)": (lambda: torch.sub(t, a), lambda: t - A), "mul(t,op)": (lambda: torch.mul(t, a), lambda: t * A),
            "mul(op,t0d)": (lambda: torch.mul(a, t0), lambda: A * t0), "matmul(t,op)": (lambda: torch.matmul(tl, a), lambda: tl @ A), "t+op": (lambda: t + a, lambda: t + A),
            "t-op": (lambda: t - a, lambda: t - A), "t*s-op": (lambda: t * s - a, lambda: t * s - A), "t@op": (lambda: tl @ a, lambda: tl @ A), "op/s": (lambda: a / s, lambda: A / s),
            "div(op,s)": (lambda: torch.div(a, t0), lambda: A / t0), "op.add(t,alpha)": (lambda: a.add(t, alpha=s), lambda: A + s * t), "op.sub(t,alpha)": (lambda: a.sub(t, alpha=s), lambda: A - s * t),
            "neg-via-rsub": (lambda: a.__rsub__(t), lambda: t - A), "add(t,op,alpha)": (lambda: torch.add(t, a, alpha=s), lambda: t + s * A), "sub(t,op,alpha)": (lambda: torch.sub(t, a, alpha=s), lambda: t - s * A),
            "diagonal(op)": (lambda: torch.diagonal(a, dim1=-2, dim2=-1), lambda: A.diagonal(dim1=-2, dim2=-1)), "transpose(op,-1,-2)": (lambda: torch.transpose(a, -1, -2), lambda: A.mT),
            "numel(op)": (lambda: torch.tensor(torch.numel(a)), lambda: torch.tensor(A.numel())), "clone(op)": (lambda: torch.clone(a), lambda: A), "unsqueeze(op,0)": (lambda: torch.unsqueeze(a, 0), lambda: A.unsqueeze(0)),
        }[form]
        try:
            r = lib()
            r = r.to_dense() if isinstance(r, LinearOperator) else r
            e = dense()
            if r.shape != e.shape or not torch.allclose(r.to(torch.float64), e.to(torch.float64)):
                fails.append(f"{form} batch={batch}: differs from the dense expression")
        except Exception as ex:  # noqa
            fails.append(f"{form} batch={batch}: raised {ex!r}"[:200])
    return {"reproduced": bool(fails), "detail": "; ".join(fails) or "native run shows no deviation"}


def check_dim_args(br):
    """torch.transpose / torch.permute routed to the operator: EVERY spelling of the dimension arguments (positive, negative,
    mixed, either order) that stays within the batch dimensions or within the matrix dimensions gives the dense answer.
    Exhaustive over the spellings for the given batch rank (the sizes stay symbolic)."""
    import itertools

    from contracts import sh_C03, spec
    from engine import shadow, sym, symops as SO

    sh_C03._env()
    torch = shadow.torch()
    from linear_operator.operators import LinearOperator

    nd = br + 2
    out = []
    cases = []
    for d1, d2 in itertools.product(range(-nd, nd), repeat=2):
        p1, p2 = d1 % nd, d2 % nd
        if (p1 < br) != (p2 < br):
            continue  # batch <-> matrix transposes are refused by design (NotImplemented-style RuntimeError); not claimed
        cases.append(("transpose", (d1, d2)))
    for perm in itertools.permutations(range(br)):
        for signs in itertools.product((False, True), repeat=br):
            dims = tuple((p - nd) if sg else p for p, sg in zip(perm, signs))
            for tail in ((nd - 2, nd - 1), (-2, -1)):
                cases.append(("permute", dims + tail))
    for kind, args in cases:
        base = f"C15/dims/{kind}{args}/batchrank={br}"

        def thunk(kind=kind, args=args, base=base):
            c = sym.ctx()
            a = sh_C03.build("Dense", br)
            Da = spec.D(a)
            exp = SO.transpose(Da, *args) if kind == "transpose" else SO.permute(Da, *args)
            try:
                got, ge = (torch.transpose(a, *args) if kind == "transpose" else torch.permute(a, args)), None
            except sym.Unsupported:
                raise
            except Exception as e:  # noqa
                got, ge = None, e
            c.prove(f"{base}/no-error", z3.BoolVal(ge is None), info=(repr(ge)[:300] + getattr(ge, "__shadow_tb__", "")[-700:]) if ge is not None else None)
            if ge is not None:
                return "raise"
            gd = spec.D(got) if isinstance(got, LinearOperator) else got
            spec.same_tensor_goals(c, base, gd, exp, dtype=False)
            return "return"

        paths = sym.explore(thunk, max_paths=16, timeout_ms=20000)
        out += sh_C03._collect(paths, base, need=("return",), replay={"module": "contracts.sh_C15", "func": "replay_dims", "args": [kind, list(args), br]})
    return out


def replay_dims(kind, args, br):
    import sys

    if REPO not in sys.path:
        sys.path.insert(0, REPO)
    import torch

    from linear_operator.operators import DenseLinearOperator

    A = torch.randn(*((2, 3)[:br]), 4, 4, generator=torch.Generator().manual_seed(0), dtype=torch.float64)
    try:
        r = (torch.transpose(DenseLinearOperator(A), *args) if kind == "transpose" else torch.permute(DenseLinearOperator(A), tuple(args))).to_dense()
        e = torch.transpose(A, *args) if kind == "transpose" else torch.permute(A, tuple(args))
        bad = r.shape != e.shape or not torch.equal(r, e)
        return {"reproduced": bool(bad), "detail": f"torch.{kind}(op{tuple(A.shape)}, {tuple(args)}) differs from the dense result" if bad else "native run shows no deviation"}
    except Exception as ex:  # noqa
        return {"reproduced": True, "detail": f"torch.{kind}(op{tuple(A.shape)}, {tuple(args)}) raised {ex!r}, the dense call succeeds"[:300]}


def check_values_many(forms, br):
    out = []
    for f in forms:
        out += check_values(f, br)
    return out


def shadow_units(tier):
    us = [conformance_unit(PID), Unit("C15/shadow/tables+routing", "contracts.sh_C15", "check_tables_and_routing", (), engine="audit", timeout_s=900)]
    for br in ((1,) if tier == "quick" else (0, 1)):
        for i in range(0, len(FORMS), 5):
            us.append(Unit(f"C15/shadow/values[{i}:{i + 5}]/br={br}", "contracts.sh_C15", "check_values_many", (FORMS[i:i + 5], br), engine="shadow", timeout_s=600))
    for br in (1, 2):
        us.append(Unit(f"C15/shadow/dims/br={br}", "contracts.sh_C15", "check_dim_args", (br,), engine="shadow", timeout_s=900))
    return us


SH_META = {
    "functions_under_contract": ["LinearOperator.__torch_function__", "_implements / _implements_second_arg / _implements_symmetric (tables)", "every registered method name on every subclass (resolution + signature)",
                                 "LinearOperator.add / sub / __radd__ / __rsub__ / __rmul__ / __mul__ / rmatmul / __rmatmul__ / div / __truediv__ / diagonal / transpose / numel / clone / unsqueeze (values on a dense-backed operator)"],
    "trusted_base": ["CPython", "inspect.signature", "z3 + symtorch models for Part V", "the stub torch namespace mimics torch's dispatch protocol (an argument defining __torch_function__ takes over)"],
    "assumptions": ["Part R is exhaustive over the finite table x class space with recorder methods (routing), not over operand values",
                    "values of the first-argument entries that delegate to solve/cholesky/eigh/svd/logdet are the business of C04-C06"],
}
