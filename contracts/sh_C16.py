"""C16 (proved tier) — contracts on the real ``_psd_safe_cholesky`` / ``psd_safe_cholesky``
(linear_operator/utils/cholesky.py), discharged by SHADOW + LOOPCUT for ALL sizes, batch shapes of the
enumerated ranks, all jitter > 0, all max_tries >= 1 and all matrix entries.

Leaf contract assumed for ``torch.linalg.cholesky_ex`` (trusted, §3.9 of DESIGN): the per-member info
code and factor are a deterministic function of that member's matrix.  Within this caller the member
matrices stay in the one-parameter family  A[b] + a*I ; the model *proves* membership at every call
(obligation ``.../cholesky_ex#j/family``) and then returns  info(b) = G(b, a(b)),  with G uninterpreted
(G >= 0; G == 0 means success).  Ghost state of the loop invariant: level(b) (how many jitter levels
member b has received), added(b) = lvl(level(b)), lvl(0) = 0, lvl(m) = jitter * 10^(m-1)."""
from __future__ import annotations

import warnings as _pywarnings

import z3

from engine import sym
from engine.common import DISCHARGED, REFUTED, UNKNOWN, Unit, conformance_unit, ob

PID = "C16"
FN = "utils/cholesky.py::_psd_safe_cholesky"


def _setup():
    from engine import shadow

    lo = shadow.install()
    import linear_operator.utils.cholesky as ch

    return lo, ch, shadow.torch()


def _run(batch_rank: int, upper: bool, explicit: bool):
    """explore psd_safe_cholesky(A, upper=upper, jitter=?, max_tries=?) symbolically"""
    lo, ch, torch = _setup()
    from engine import loopcut, symops as O, symtensor as T
    from engine.symtensor import SymTensor
    from linear_operator import settings
    from linear_operator.utils.errors import NanError, NotPSDError
    from linear_operator.utils.warnings import NumericalWarning

    sig = f"batchrank={batch_rank}/upper={upper}/{'explicit' if explicit else 'settings'}"
    base = f"C16/{FN}/{sig}"
    G = z3.Function("G_info", *([z3.IntSort()] * batch_rank), z3.RealSort(), z3.IntSort())
    pow10 = sym.uf("pow10", z3.IntSort(), z3.IntSort())
    state = {}

    def lvl(m, jitter):
        m = sym.as_z3_int(m)
        sym.ctx().add_axiom(z3.And(pow10(z3.IntVal(0)) == 1, z3.Implies(m >= 1, pow10(m) == 10 * pow10(m - 1)),
                                   z3.Implies(m >= 1, pow10(m - 1) >= 1), z3.Implies(m >= 0, pow10(m) >= 1)))
        return z3.If(m == 0, z3.RealVal(0), sym.as_real(jitter) * z3.ToReal(pow10(m - 1)))

    def Gax(b, a):
        t = G(*b, a)
        sym.ctx().add_axiom(t >= 0)
        return t

    def instantiate(b, r, cc, s, k=None):
        """instantiate the assumed universal facts of this path at the skolem indices of a goal"""
        sym.instantiate_universals(b)
        sym.instantiate_universals(b, key="inv:b")
        sym.instantiate_universals(b + (r, cc), key="inv:brc")
        sym.instantiate_universals(b + (s,), key="inv:bs")
        if k is not None:  # the induction step needs the minimality hypothesis at s and the level index k
            kk = sym.as_z3_int(k)
            sym.instantiate_universals(b + (kk,), key="inv:bs")
            sym.instantiate_universals(b + (kk - 1,), key="inv:bs")

    class Spec(loopcut.LoopSpec):
        modifies = ("jitter_new", "diag_add", "Aprime", "jitter_prev", "L", "info", "i", "out")  # out: None in the explored signature
        target = "i"

        def witness(self, env, k):
            """ghost level/added at the point where the invariant is evaluated"""
            level = state.get("level_cur") or (lambda b: z3.IntVal(0))  # before the loop: nothing added
            jit = state["jitter"]
            return level, (lambda b: lvl(level(b), jit))

        def before_close(self, env, k):
            state["level_cur"] = state["level_next"]

        def facts(self, env, k):
            """the invariant as functions of the quantified indices"""
            A, jit = state["A"], state["jitter"]
            Aprime, info = env["Aprime"], env["info"]
            # SNAPSHOTS of the values at the moment the facts are built (the loop head when they are assumed, the state after the
            # body when they are proved): Aprime is updated in place by the body, a lazily evaluated Aprime.at(...) in an
            # assumed fact would silently talk about the post-state
            _ape, _ife = Aprime.elem_fn(), info.elem_fn()

            class _Snap:
                def __init__(self, e):
                    self.e = e

                def at(self, *idx):
                    return self.e(tuple(idx))
            Aprime, info = _Snap(_ape), _Snap(_ife)
            level, added = self.witness(env, k)
            kk = sym.as_z3_int(k)
            inb_b = lambda b: z3.And(*[z3.And(bi >= 0, bi < sym.as_z3_int(sz)) for bi, sz in zip(b, A.shape[:batch_rank])]) if batch_rank else z3.BoolVal(True)  # noqa
            return {
                "scalar": [("jitter_prev", sym.as_real(env["jitter_prev"]) == lvl(kk, jit))],
                "brc": [("Aprime=A+added*I", lambda b, r, cc: z3.Implies(A.in_bounds(b + (r, cc)), Aprime.at(*b, r, cc) == A.at(*b, r, cc) + z3.If(r == cc, added(b), z3.RealVal(0))))],
                "b": [("info=G(added)", lambda b: z3.Implies(inb_b(b), info.at(*b) == Gax(b, added(b)))),
                      ("level-range", lambda b: z3.Implies(inb_b(b), z3.And(level(b) >= 0, level(b) <= kk))),
                      ("failing=>level==k", lambda b: z3.Implies(z3.And(inb_b(b), info.at(*b) > 0), level(b) == kk))],
                "bs": [("minimal", lambda b, s: z3.Implies(z3.And(inb_b(b), s >= 0, s < level(b)), Gax(b, lvl(s, jit)) > 0))],
            }

        def invariant(self, env, k):
            c = sym.ctx()
            f = self.facts(env, k)
            b = tuple(z3.Int(c.fresh_name(f"b{j}!inv")) for j in range(batch_rank))
            r, cc, s = z3.Int(c.fresh_name("r!inv")), z3.Int(c.fresh_name("c!inv")), z3.Int(c.fresh_name("s!inv"))
            instantiate(b, r, cc, s, k)
            goals = list(f["scalar"])
            goals += [(n, g(b, r, cc)) for n, g in f["brc"]]
            goals += [(n, g(b)) for n, g in f["b"]]
            goals += [(n, g(b, s)) for n, g in f["bs"]]
            return goals

        def assume(self, env, k):
            c = sym.ctx()
            f = self.facts(env, k)
            for n, g in f["scalar"]:
                c.assume(g)
            for n, g in f["brc"]:
                c.universals.append(("inv:brc", lambda idx, g=g: g(tuple(idx[:batch_rank]), idx[batch_rank], idx[batch_rank + 1])))
            for n, g in f["b"]:
                c.universals.append(("inv:b", lambda idx, g=g: g(tuple(idx))))
            for n, g in f["bs"]:
                c.universals.append(("inv:bs", lambda idx, g=g: g(tuple(idx[:batch_rank]), idx[batch_rank])))

        def havoc(self, env, k, mode):
            c = sym.ctx()
            A, jit = state["A"], state["jitter"]
            kk = sym.as_z3_int(k)
            lev = z3.Function(c.fresh_name("level"), *([z3.IntSort()] * batch_rank), z3.IntSort()) if batch_rank else None
            lev0 = z3.Int(c.fresh_name("level")) if not batch_rank else None
            level = (lambda b: lev(*b)) if batch_rank else (lambda b: lev0)
            state["level_cur"] = level
            added = lambda b: lvl(level(b), jit)  # noqa
            Aprime = env["Aprime"]
            ae = A.elem_fn()
            nb = batch_rank
            # havoc the mutated object in place: every alias of Aprime sees the arbitrary-iteration state
            Aprime.storage.elem = lambda idx: ae(idx) + z3.If(O.ix(idx[-1]) == O.ix(idx[-2]), added(tuple(O.ix(i) for i in idx[:nb])), z3.RealVal(0))
            info = SymTensor.from_elem(A.shape[:-2], T.int32, lambda idx: Gax(tuple(O.ix(i) for i in idx), added(tuple(O.ix(i) for i in idx))))
            Lh = SymTensor.fresh(c.fresh_name("L_havoc"), A.shape, A.dtype, owner="callee:cholesky_ex")
            jp = sym.SymReal(z3.Real(c.fresh_name("jitter_prev")))
            new = {"Aprime": Aprime, "info": info, "L": Lh, "jitter_prev": jp}
            if mode == "exit":
                new["jitter_new"] = sym.SymReal(z3.Real(c.fresh_name("jitter_new")))
            state["info_head"] = info
            state["k"] = k
            # the ghost update performed by one iteration (witness for the next loop head / a return in the body)
            ih = info.elem_fn()
            state["level_next"] = lambda b: z3.If(ih(b) > 0, kk + 1, level(b))
            return new

    spec = Spec()

    # ---- leaf model of cholesky_ex for this caller --------------------------------------------
    calls = []

    def cholesky_ex(X, *, upper=False, check_errors=False, out=None):
        c = sym.ctx()
        if out is not None:
            raise sym.Unsupported("cholesky_ex(out=...)")
        A = state["A"]
        j = len(calls)
        xe = X.elem_fn()
        ae = A.elem_fn()
        nb = batch_rank
        zero = tuple([z3.IntVal(0), z3.IntVal(0)])

        def a_of(b):
            return xe(tuple(b) + zero) - ae(tuple(b) + zero)

        # family membership obligation (this is also what pins "jitter goes to the diagonal only, uniformly")
        b = tuple(z3.Int(c.fresh_name(f"b{t}!fam")) for t in range(nb))
        r, cc = z3.Int(c.fresh_name("r!fam")), z3.Int(c.fresh_name("c!fam"))
        inb = A.in_bounds(b + (r, cc))
        instantiate(b, r, cc, z3.Int(c.fresh_name("s!fam")))
        shape_ok = len(X.shape) == len(A.shape) and all(O.dim_eq(p, q) for p, q in zip(X.shape, A.shape))
        fam = c.prove(f"{base}/cholesky_ex#{j}/family", z3.And(z3.BoolVal(bool(shape_ok)), z3.Implies(inb, xe(b + (r, cc)) == ae(b + (r, cc)) + z3.If(r == cc, a_of(b), z3.RealVal(0)))), kind="leaf-pre")
        if fam["status"] == DISCHARGED:
            info = SymTensor.from_elem(A.shape[:-2], T.int32, lambda idx: Gax(tuple(O.ix(i) for i in idx), a_of(tuple(O.ix(i) for i in idx))))
        else:
            f = T.fresh_fun(f"info{j}", nb, z3.IntSort())
            info = SymTensor.from_elem(A.shape[:-2], T.int32, lambda idx: f(*[O.ix(i) for i in idx]))
        L = SymTensor.fresh(c.fresh_name(f"cholL{j}"), X.shape, X.dtype, owner="callee:cholesky_ex")
        calls.append({"X": xe, "L": L, "info": info, "a": a_of})
        return L, info

    import sys as _sys
    _sys.modules["torch"].linalg.cholesky_ex = cholesky_ex

    cut_fn = loopcut.cut(ch._psd_safe_cholesky, {0: spec}, name=base)
    results = []

    def thunk():
        calls.clear()
        state.clear()
        c = sym.ctx()
        n = sym.sym_int("n", 1)
        bs = tuple(sym.sym_int(f"B{t}", 0) for t in range(batch_rank))
        A = SymTensor.fresh("A", bs + (n, n), T.float64 if explicit else T.float32)
        state["A"] = A
        if explicit:
            jitter = sym.SymReal("jitter")
            c.assume(jitter > 0)
            max_tries = sym.sym_int("max_tries", 1)
        else:
            jitter, max_tries = None, None
            jv = sym.SymReal("settings_jitter")
            c.assume(jv > 0)
            mt = sym.sym_int("settings_max_tries", 1)
            settings.cholesky_jitter._global_float_value = jv
            settings.cholesky_max_tries._global_value = mt
        state["jitter"] = jitter if explicit else jv
        state["max_tries"] = max_tries if explicit else mt
        ch_globals = cut_fn.__globals__
        # psd_safe_cholesky (the public wrapper) is executed unchanged, calling the cut inner function
        wrapper = type(ch.psd_safe_cholesky)(ch.psd_safe_cholesky.__code__, {**ch.psd_safe_cholesky.__globals__, "_psd_safe_cholesky": cut_fn},
                                             "psd_safe_cholesky", ch.psd_safe_cholesky.__defaults__)
        with _pywarnings.catch_warnings(record=True) as w:
            _pywarnings.simplefilter("always")
            state["warnings"] = w
            return wrapper(A, upper=upper, jitter=jitter, max_tries=max_tries)

    def post(c, outcome, value):
        A = state["A"]
        jit = state["jitter"]
        w = [x for x in state.get("warnings", []) if issubclass(x.category, NumericalWarning)]
        # frame: A is never written
        writes = [e for e in c.events if e[0] == "inplace" and str(e[1]["owner"]).startswith("caller")]
        c.prove(f"{base}/frame/A-untouched", z3.BoolVal(not writes), kind="frame", info=[e[1] for e in writes][:3])
        b = tuple(z3.Int(c.fresh_name(f"b{t}!post")) for t in range(batch_rank))
        r, cc, s = z3.Int(c.fresh_name("r!post")), z3.Int(c.fresh_name("c!post")), z3.Int(c.fresh_name("s!post"))
        inb = A.in_bounds(b + (r, cc))
        instantiate(b, r, cc, s, state.get("k"))
        if outcome == "return":
            last = calls[-1]
            Lret = last["L"]
            # R1: the returned tensor is the factor computed by the LAST cholesky_ex call (transposed iff upper)
            shape_ok = len(value.shape) == len(A.shape)
            if upper:
                same = z3.Implies(inb, value.at(*b, r, cc) == Lret.at(*b, cc, r))
            else:
                same = z3.Implies(inb, value.at(*b, r, cc) == Lret.at(*b, r, cc))
            c.prove(f"{base}/return/is-factor-of-last-call{'-transposed' if upper else ''}", z3.And(z3.BoolVal(shape_ok), same))
            # R2: every member of that call succeeded
            c.prove(f"{base}/return/all-members-succeeded", z3.Implies(inb, last["info"].at(*b) == 0))
            if len(calls) == 1:
                # first try: exact factor of A itself, no warning
                c.prove(f"{base}/return/first-try/exact-A", z3.Implies(inb, last["X"](b + (r, cc)) == A.at(*b, r, cc)))
                c.prove(f"{base}/return/first-try/no-warning", z3.BoolVal(len(w) == 0))
            else:
                # returned from inside the loop at iteration k: ghost witness after this iteration
                k = sym.as_z3_int(state["k"])
                level = state["level_next"]
                added = lambda bb: lvl(level(bb), jit)  # noqa
                c.prove(f"{base}/return/jittered/factor-of-A+added*I",
                        z3.Implies(inb, last["X"](b + (r, cc)) == A.at(*b, r, cc) + z3.If(r == cc, added(b), z3.RealVal(0))))
                c.prove(f"{base}/return/jittered/per-member-level-range", z3.Implies(inb, z3.And(level(b) >= 0, level(b) <= k + 1, k + 1 <= sym.as_z3_int(state["max_tries"]))))
                c.prove(f"{base}/return/jittered/minimal-level-per-member", z3.Implies(z3.And(inb, s >= 0, s < level(b)), Gax(b, lvl(s, jit)) > 0))
                c.prove(f"{base}/return/jittered/success-at-level", z3.Implies(inb, Gax(b, added(b)) == 0))
                c.prove(f"{base}/return/jittered/warning-emitted", z3.BoolVal(len(w) >= 1))
        elif outcome == "raise":
            ok = isinstance(value, (NanError, NotPSDError))
            c.prove(f"{base}/raise/only-NanError-or-NotPSDError", z3.BoolVal(ok), info=repr(value)[:200] + (getattr(value, "__shadow_tb__", "") if not ok else ""))
            if isinstance(value, NotPSDError):
                # only after the loop was exhausted: some member still failing at level max_tries
                c.prove(f"{base}/raise/NotPSD-only-after-all-tries", z3.BoolVal(state.get("k") is not None))

    try:
        paths = sym.explore(thunk, post=post, max_paths=256)
    finally:
        settings.cholesky_jitter._global_float_value = 1e-6
        settings.cholesky_max_tries._global_value = 3
    out = []
    kinds = {}
    for p in paths:
        kinds[p.outcome] = kinds.get(p.outcome, 0) + 1
        if p.outcome == "unsupported":
            out.append(ob(f"{base}/<path unsupported>", UNKNOWN, reason=str(p.value)[:300]))
        for o in p.obligations:
            d = ob(o["name"], o["status"], by="z3", kind=o.get("kind"), info=o.get("info"), solver_s=p.solver_s / max(1, len(p.obligations)))
            if o["status"] != DISCHARGED:
                d["model"] = o.get("model")
                d["smt2"] = o.get("smt2")
                d["reason"] = o.get("reason")
                d["replay"] = {"module": "contracts.sh_C16", "func": "replay", "args": [o["name"]]}
            out.append(d)
    # vacuity guards: the three kinds of outcome must all be reachable
    for need in ("return", "raise", "cut"):
        out.append(ob(f"{base}/cover/{need}-path-reachable", DISCHARGED if kinds.get(need) else REFUTED, by="explorer", info=kinds))
    # merge duplicates (same obligation name on several paths): all must be discharged
    merged = {}
    for o in out:
        m = merged.get(o["name"])
        if m is None or (m["status"] == DISCHARGED and o["status"] != DISCHARGED):
            merged[o["name"]] = o
    return list(merged.values())


def check(batch_rank, upper, explicit):
    return _run(batch_rank, upper, explicit)


def replay(obname):
    """native replay of a refuted C16 obligation: run the bounded C16 contract family on the real code"""
    import importlib

    try:
        m = importlib.import_module("contracts.rtc_C16")
    except Exception as e:  # bounded tier not available
        return {"reproduced": False, "detail": f"no native family available: {e!r}"}
    fails = []
    for u in m.rtc_units("quick"):
        res = getattr(importlib.import_module(u.module), u.func)(*u.args)
        res = res if isinstance(res, list) else res.get("obligations", [])
        fails += [f"{o['name']}: {o.get('detail', '')[:300]}" for o in res if o["status"] == "bounded-fail"]
    return {"reproduced": bool(fails), "detail": "; ".join(fails[:5]) or "bounded native family passes"}


def shadow_units(tier):
    us = [conformance_unit(PID)]
    ranks = (0, 1) if tier == "quick" else (0, 1, 2)
    for br in ranks:
        for upper in (False, True):
            for explicit in (True, False):
                us.append(Unit(f"C16/shadow/batchrank={br}/upper={upper}/{'explicit' if explicit else 'settings'}", "contracts.sh_C16", "check", (br, upper, explicit), engine="loopcut", timeout_s=600))
    return us


SH_META = {
    "level_if_complete": "proof",
    "functions_under_contract": ["utils/cholesky.py::_psd_safe_cholesky (loop 0 cut at the invariant)", "utils/cholesky.py::psd_safe_cholesky"],
    "trusted_base": ["z3", "CPython", "symtorch models (clone, diagonal view, add_ through a view, expand, unsqueeze, mT, any, isnan)",
                     "leaf contract: torch.linalg.cholesky_ex is a deterministic per-member function (info = G(member matrix)), info==0 <=> success"],
    "assumptions": ["floats are reals (10**i exact)", "max_tries >= 1 (max_tries = 0 raises UnboundLocalError instead of NotPSDError: outside the claimed domain)",
                    "out= variant not explored", "finite/NaN-free factor on success is part of the cholesky_ex leaf contract"],
}
