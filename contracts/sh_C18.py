"""C18 (proved tier) — a sample is a fixed linear map R applied to standard normal noise with R R^T = D(op).

``torch.randn`` returns a fresh symbolic noise tensor Z (every draw is recorded).  For each sampler the
contract names the map R (a function of the constructor arguments only, independent of Z) and the layout
of Z, and the obligations are, for all sizes / entries / numbers of samples k:
   shape(sample) == (k, *batch, n),  dtype(sample) == op.dtype,
   sample[s, b, i] == sum_j R[b, i, j] * Z[layout(s, b, j)]        (linearity in the recorded noise, entry-wise)
   sum_j R[b, i, j] R[b, l, j] == D(op)[b, i, l]                    (R is a square root of the represented matrix)
Samplers under contract: Diag / ConstantDiag / Identity (element-wise), the generic root sampler of
LinearOperator.zero_mean_mvn_samples for operators whose root is available without a numerical factorisation
(Root, LowRankRoot, Cholesky operators), Interpolated over a root operator (R = W_l R_base), PsdSum of root
operators (independent draws, R = [R_1 | R_2]).  Roots obtained from Cholesky / Lanczos / CIQ (numerical
leaves) are covered by the bounded tier."""
from __future__ import annotations

import z3

from engine import sym
from engine.common import DISCHARGED, REFUTED, UNKNOWN, Unit, conformance_unit, ob

PID = "C18"
KINDS = ["Diag", "ConstantDiag", "Identity", "Root", "LowRankRoot", "CholLower", "InterpRoot_w2", "PsdSumRoots"]


def check_sampler(kind, br):
    from contracts import sh_C03, spec
    from engine import symops as SO, symtensor as T
    from engine.symtensor import SymTensor

    sh_C03._env()
    from linear_operator import operators as LO

    base = f"C18/{kind}.zero_mean_mvn_samples/batchrank={br}"

    def thunk():
        c = sym.ctx()
        if kind == "PsdSumRoots":
            bs = tuple(sym.sym_int(f"B{t}", 1) for t in range(br))
            n = sym.sym_int("n", 1)
            R1 = SymTensor.fresh("R1", bs + (n, sym.sym_int("k1", 1)), T.float64)
            R2 = SymTensor.fresh("R2", bs + (n, sym.sym_int("k2", 1)), T.float64)
            op = LO.PsdSumLinearOperator(LO.RootLinearOperator(R1), LO.RootLinearOperator(R2))
        else:
            op = sh_C03.build(kind, br)
        Dm = spec.D(op)
        c.assume(Dm.shape[-1] == Dm.shape[-2])  # sampling is defined for square (PSD) operators
        k = sym.sym_int("num_samples", 1)
        n0 = len(c.events)
        samples = op.zero_mean_mvn_samples(k)
        noises = [e[1] for e in c.events[n0:] if e[0] == "noise"]
        nb = len(Dm.shape) - 2
        exp_shape = (k,) + tuple(Dm.shape[:-1])
        c.prove(f"{base}/rank", z3.BoolVal(len(samples.shape) == len(exp_shape)), info=f"{samples.shape} vs {exp_shape}")
        if len(samples.shape) != len(exp_shape):
            return "ok"
        c.prove(f"{base}/shape", z3.And(*[sym.as_z3_int(a) == sym.as_z3_int(b) for a, b in zip(samples.shape, exp_shape)]), info=f"{samples.shape} vs {exp_shape}")
        c.prove(f"{base}/dtype", z3.BoolVal(samples.dtype is Dm.dtype), info=f"{samples.dtype} vs {Dm.dtype}")
        c.prove(f"{base}/noise-draws", z3.BoolVal(len(noises) == (2 if kind == "PsdSumRoots" else 1)), info=len(noises))
        s = z3.Int(c.fresh_name("s!smp"))
        b = tuple(z3.Int(c.fresh_name(f"b{j}!smp")) for j in range(nb))
        i, l = z3.Int(c.fresh_name("i!smp")), z3.Int(c.fresh_name("l!smp"))
        inb = z3.And(s >= 0, s < sym.as_z3_int(k), Dm.in_bounds(b + (i, l)))
        sqrt = SO.real_uf("sqrt")
        real = z3.RealSort()

        def summ(nterms, body):
            return SO.sum_term(nterms, body, real)

        n = Dm.shape[-1]
        one_by_one = kind in ("Root", "LowRankRoot", "CholLower", "PsdSumRoots0") and bool(n == 1)
        if one_by_one:
            # the generic sampler special-cases 1 x 1 operators: sample = sqrt(D) * z with a single noise component
            Z = noises[0]
            zero = z3.IntVal(0)
            c.add_axiom(z3.Implies(Dm.in_bounds(b + (zero, zero)), Dm.at(*b, zero, zero) >= 0))  # PSD precondition
            Rf = lambda bb, ii, jj: sqrt(Dm.at(*bb, zero, zero))  # noqa
            rank_r = 1
            lin = Rf(b, i, zero) * Z.at(*b, zero, s)
        elif kind in ("Diag", "ConstantDiag", "Identity"):
            Z = noises[0]
            dd = lambda bb, ii: Dm.at(*bb, ii, ii)  # noqa  (diagonal entry of the spec matrix)
            Rf = lambda bb, ii, jj: z3.If(ii == jj, sqrt(dd(bb, ii)), z3.RealVal(0))  # noqa
            lin = summ(n, lambda j: Rf(b, i, j) * Z.at(s, *b, j))
            rank_r = n
            # the element-wise samplers need a non-negative diagonal (PSD precondition)
            c.add_axiom(z3.Implies(Dm.in_bounds(b + (i, i)), dd(b, i) >= 0))
            c.add_axiom(z3.Implies(Dm.in_bounds(b + (l, l)), dd(b, l) >= 0))
        elif kind in ("Root", "LowRankRoot", "CholLower"):
            Z = noises[0]
            Rt = spec.D(op._args[0])  # the root tensor / triangular factor
            Rf = lambda bb, ii, jj: Rt.at(*bb, ii, jj)  # noqa
            rank_r = Rt.shape[-1]
            lin = summ(rank_r, lambda j: Rf(b, i, j) * Z.at(*b, j, s))
        elif kind == "InterpRoot_w2":
            Z = noises[0]
            base_op = op._args[0]
            Rb = spec.D(base_op._args[0])
            Db = spec.D(base_op)
            li, lv = op._args[1], op._args[2]
            w = 2
            c.assume(Db.shape[-1] >= 2)  # (a 1 x 1 base operator takes the sqrt branch of the base sampler: bounded tier)
            if bool(Db.shape[-1] == 1):  # 1 x 1 base: the base sampler uses sqrt(D_base) with one noise component
                zero = z3.IntVal(0)
                c.add_axiom(z3.Implies(Db.in_bounds(b + (zero, zero)), Db.at(*b, zero, zero) >= 0))
                Rbf = lambda bb, rr, jj: sqrt(Db.at(*bb, zero, zero))  # noqa
                rank_r = 1
            else:
                Rbf = lambda bb, rr, jj: Rb.at(*bb, rr, jj)  # noqa
                rank_r = Rb.shape[-1]
            Rf = lambda bb, ii, jj: sum((lv.at(*bb, ii, a) * Rbf(bb, li.at(*bb, ii, a), jj) for a in range(w)), z3.RealVal(0))  # noqa
            lin = summ(rank_r, lambda j: Rf(b, i, j) * Z.at(*b, j, s))
            # (the sampler is a root of W_l K W_l^T: the contract requires the symmetric case W_r == W_l)
            ri, rv = op._args[3], op._args[4]
            for a in range(w):
                c.add_axiom(z3.Implies(Dm.in_bounds(b + (l, l)), z3.And(ri.at(*b, l, a) == li.at(*b, l, a), rv.at(*b, l, a) == lv.at(*b, l, a))))
        else:  # PsdSumRoots
            Z1, Z2 = noises
            R1t, R2t = spec.D(op._args[0]._args[0]), spec.D(op._args[1]._args[0])
            Rf = None
            if bool(n == 1):  # both terms take the 1 x 1 branch of the generic sampler
                zero = z3.IntVal(0)
                D1, D2 = spec.D(op._args[0]), spec.D(op._args[1])
                for Dx in (D1, D2):
                    c.add_axiom(z3.Implies(Dx.in_bounds(b + (zero, zero)), Dx.at(*b, zero, zero) >= 0))
                lin = sqrt(D1.at(*b, zero, zero)) * Z1.at(*b, zero, s) + sqrt(D2.at(*b, zero, zero)) * Z2.at(*b, zero, s)
                psd_1x1 = D1.at(*b, zero, zero) + D2.at(*b, zero, zero)
            else:
                psd_1x1 = None
                lin = summ(R1t.shape[-1], lambda j: R1t.at(*b, i, j) * Z1.at(*b, j, s)) + summ(R2t.shape[-1], lambda j: R2t.at(*b, i, j) * Z2.at(*b, j, s))
        c.prove(f"{base}/linear-in-noise", z3.Implies(inb, samples.at(s, *b, i) == lin))
        if Rf is not None:
            rrt = summ(rank_r, lambda j: Rf(b, i, j) * Rf(b, l, j))
        elif psd_1x1 is not None:
            rrt = sqrt(D1.at(*b, zero, zero)) * sqrt(D1.at(*b, zero, zero)) + sqrt(D2.at(*b, zero, zero)) * sqrt(D2.at(*b, zero, zero))
        else:
            rrt = summ(R1t.shape[-1], lambda j: R1t.at(*b, i, j) * R1t.at(*b, l, j)) + summ(R2t.shape[-1], lambda j: R2t.at(*b, i, j) * R2t.at(*b, l, j))
        c.prove(f"{base}/R-is-a-root-of-D", z3.Implies(inb, rrt == Dm.at(*b, i, l)))
        writes = [e for e in c.events if e[0] == "inplace" and str(e[1]["owner"]).startswith("caller")]
        c.prove(f"{base}/frame", z3.BoolVal(not writes), kind="frame")
        return "ok"

    paths = sym.explore(thunk, max_paths=64, timeout_ms=30000)
    return sh_C03._collect(paths, base, need=("return",), replay={"module": "contracts.sh_C18", "func": "replay", "args": [kind]})


def replay(kind):
    import importlib

    try:
        m = importlib.import_module("contracts.rtc_C18")
    except Exception as e:  # noqa
        return {"reproduced": False, "detail": f"no native family: {e!r}"}
    key = {"Diag": "diag", "ConstantDiag": "constdiag", "Identity": "identity", "Root": "root", "LowRankRoot": "lowrankroot", "CholLower": "chol", "InterpRoot_w2": "interp", "PsdSumRoots": "psdsum"}[kind]
    fails = []
    for u in m.rtc_units("quick"):
        if key not in u.name and key not in str(u.args):
            continue
        res = getattr(importlib.import_module(u.module), u.func)(*u.args)
        res = res if isinstance(res, list) else res.get("obligations", [])
        fails += [f"{o['name']}: {o.get('detail', '')[:200]}" for o in res if o["status"] == "bounded-fail" and key in o["name"]]
    return {"reproduced": bool(fails), "detail": "; ".join(fails[:3]) or "bounded native family passes"}


def shadow_units(tier):
    us = [conformance_unit(PID)]
    for kind in KINDS:
        for br in (0, 1) if tier == "quick" else (0, 1, 2):
            us.append(Unit(f"C18/shadow/{kind}/br={br}", "contracts.sh_C18", "check_sampler", (kind, br), engine="shadow", timeout_s=600))
    return us


SH_META = {
    "functions_under_contract": ["LinearOperator.zero_mean_mvn_samples (generic root branch)", "DiagLinearOperator.zero_mean_mvn_samples (also ConstantDiag)", "IdentityLinearOperator.zero_mean_mvn_samples",
                                 "InterpolatedLinearOperator.zero_mean_mvn_samples", "PsdSumLinearOperator.zero_mean_mvn_samples", "RootLinearOperator.root_decomposition / CholLinearOperator (root available in closed form)"],
    "trusted_base": ["z3", "CPython", "symtorch models; sqrt axioms sqrt(x)^2 = x, sqrt(x) >= 0 for x >= 0; sum normal form prover"],
    "assumptions": ["torch.randn is modelled as a fresh unconstrained tensor (the noise distribution is not part of the obligations: only the linear map)",
                    "Interpolated sampler: symmetric operator (left and right interpolation equal) as the sampler itself assumes; base operator at least 2 x 2",
                    "roots from Cholesky / Lanczos / contour-integral quadrature and the block samplers: bounded tier"],
}
