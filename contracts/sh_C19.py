"""C19 (proved tier) — "raises iff torch would reject", decided in the shape / index domain for all sizes.

The dense reference is executed in the SAME symbolic path as the library call (symtorch model of
torch.matmul / broadcasting / indexing, conformance-tested against real torch including the error cases);
whenever the reference raises on a path, the obligation is that the library call raises on that path too.
The explorations are shared with C01 (matmul family, every class x rhs rank), C02 (+, -, @ between class
pairs with mismatching matrix dimensions, tensor operands with non-broadcastable batch shapes, add_diagonal,
expand) and C03 (__getitem__ with out-of-range ints / one-element index tensors, debug on and off); this
module re-runs them and keeps the raise-equivalence obligations, plus a total characterisation of
``utils/broadcasting.py::_matmul_broadcast_shape``."""
from __future__ import annotations

import itertools

import z3

from engine.common import DISCHARGED, REFUTED, UNKNOWN, Unit, conformance_unit, ob

PID = "C19"


def _keep(obs):
    out = []
    for o in obs:
        n = o["name"]
        if n.startswith("C19/") or "raises-when-torch-raises" in n:
            d = dict(o)
            if not n.startswith("C19/"):
                d["name"] = "C19/" + n.split("/", 1)[1]
            out.append(d)
        elif o["status"] == UNKNOWN and "<unsupported>" in n:
            d = dict(o)
            d["name"] = "C19/" + n.split("/", 1)[1]
            out.append(d)
    return out


def matmul_family(kinds, br):
    from contracts import sh_C01

    out = []
    for k in kinds:
        for rhs in sh_C01.RHS:
            for how in ("matmul", "@"):
                out += _keep(sh_C01.check_matmul(k, br, rhs, how))
    return out


def binary_family(items):
    from contracts import sh_C02

    out = []
    for it in items:
        if it[0] == "bin":
            out += _keep(sh_C02.check_binary(*it[1:], variant="mismatch"))
            out += _keep(sh_C02.check_binary(*it[1:], variant="compat"))
        else:
            out += _keep(sh_C02.check_unary(*it[1:]))
    return out


def getitem_family(sigs, debug):
    from contracts import sh_C03

    out = []
    for s in sigs:
        out += _keep(sh_C03.check_getitem(tuple(s), debug))
    return out


def mbs_total(ra, rb):
    """_matmul_broadcast_shape(shape_a, shape_b): raises iff torch.matmul of tensors of those shapes raises; equal result"""
    from contracts import sh_C03
    from engine import sym, symops as SO, symtensor as T
    from engine.symtensor import Size, SymTensor

    sh_C03._env()
    from linear_operator.utils.broadcasting import _matmul_broadcast_shape

    base = f"C19/_matmul_broadcast_shape/rank_a={ra}/rank_b={rb}"

    def thunk():
        c = sym.ctx()
        sa = Size(sym.sym_int(f"a{j}", 0) for j in range(ra))
        sb = Size(sym.sym_int(f"b{j}", 0) for j in range(rb))
        A, B = SymTensor.fresh("A", sa, T.float64), SymTensor.fresh("B", sb, T.float64)
        try:
            exp, ee = SO.matmul(A, B).shape, None
        except RuntimeError as e:
            exp, ee = None, e
        try:
            got, ge = _matmul_broadcast_shape(sa, sb), None
        except RuntimeError as e:
            got, ge = None, e
        c.prove(f"{base}/raises-iff-torch-raises", z3.BoolVal((ee is None) == (ge is None)), info=f"torch: {ee!r}; helper: {ge!r} / {got}")
        if ee is None and ge is None:
            c.prove(f"{base}/shape", z3.And(z3.BoolVal(len(got) == len(exp)), *[sym.as_z3_int(p) == sym.as_z3_int(q) for p, q in zip(got, exp)]) if len(got) == len(exp) else z3.BoolVal(False),
                    info=f"{got} vs {exp}")
        return "ok"

    paths = sym.explore(thunk, max_paths=512, timeout_ms=20000)
    return sh_C03._collect(paths, base, need=("return",))


def shadow_units(tier):
    import json
    import os

    from contracts import sh_C01, sh_C03

    us = [conformance_unit(PID)]
    ranks = (1,) if tier == "quick" else (0, 1)
    for br in ranks:
        ks = sh_C01.KINDS
        for i in range(0, len(ks), 2):
            us.append(Unit(f"C19/shadow/matmul[{','.join(ks[i:i + 2])}]/br={br}", "contracts.sh_C19", "matmul_family", (ks[i:i + 2], br), engine="shadow", timeout_s=900))
    cells = [tuple(c) for c in json.load(open(os.path.join(os.path.dirname(__file__), "sh_C02_cells.json")))["cells"]]
    items = [c for i, c in enumerate(cells) if c[0] == "bin" and (tier != "quick" or i % 4 == 0)] + [c for c in cells if c[0] == "un" and c[3] in ("add_tensor", "radd_tensor", "sub_tensor", "expand", "add_diagonal_full", "mul_batchconst")]
    chunk = max(1, len(items) // 40)
    for i in range(0, len(items), chunk):
        us.append(Unit(f"C19/shadow/binary[{i}:{i + chunk}]", "contracts.sh_C19", "binary_family", ([list(x) for x in items[i:i + chunk]],), engine="shadow", timeout_s=1800))
    sigs = [s for s in sh_C03.getitem_sigs(tier) if "int" in s or "tensor1_any" in s]
    for dbg in (True, False):
        for i in range(0, len(sigs), 10):
            us.append(Unit(f"C19/shadow/getitem/debug={dbg}[{i}:{i + 10}]", "contracts.sh_C19", "getitem_family", (sigs[i:i + 10], dbg), engine="shadow", timeout_s=900))
    for ra, rb in itertools.product((2, 3, 4), (1, 2, 3, 4)):
        us.append(Unit(f"C19/shadow/_matmul_broadcast_shape/{ra}x{rb}", "contracts.sh_C19", "mbs_total", (ra, rb), engine="shadow", timeout_s=600))
    return us


SH_META = {
    "functions_under_contract": ["utils/broadcasting.py::_matmul_broadcast_shape (total characterisation)", "LinearOperator.matmul / __matmul__ and the matmul overrides of Diag, ConstantDiag, Identity, Zero, Triangular (shape check)",
                                 "LinearOperator.__add__ / __sub__ / matmul(operator) for the class pairs of contracts/sh_C02_cells.json (matrix-dimension mismatch, batch broadcast failure)",
                                 "LinearOperator.__getitem__ / utils/getitem.py::_compute_getitem_size (integer and one-element tensor indices out of range; debug on and off)", "expand, add_diagonal"],
    "trusted_base": ["z3", "CPython", "symtorch models of torch.matmul / broadcasting / indexing incl. their error cases (conformance-tested on every run)"],
    "assumptions": ["the exception type is not constrained (the property accepts any exception)", "solve / inv_quad / inv_quad_logdet / cat / square-only operations are covered by the bounded tier only",
                    "out-of-range entries of index tensors longer than one element are covered by the bounded tier only (the proved tier takes index tensors of symbolic length as valid)"],
}
