"""C20 (proved tier) — index-arithmetic utilities against their dense definitions (SHADOW, elem domain, all sizes):

  toeplitz_getitem / sym_toeplitz_getitem   == T[i, j] with T[i, j] = c[i-j] (i >= j), r[j-i] (i < j)
  left_interp(idx, val, rhs)                == W @ rhs, W[r, idx[r, k]] += val[r, k]   (vector and matrix rhs, batch broadcast, width 1..2)
  inverse_permutation(p)                    : res[..., p[..., k]] == k  (and, p being a bijection, p[res[j]] == j)
  _pad_with_singletons                      : shape and entries

FFT Toeplitz products, the dense toeplitz() constructor loops, the sparse (COO) utilities, stable_qr and
stable_pinverse are decided by the bounded tier only."""
from __future__ import annotations

import z3

from engine import sym
from engine.common import DISCHARGED, REFUTED, UNKNOWN, Unit, conformance_unit, ob

PID = "C20"


def _env():
    from contracts import sh_C03

    sh_C03._env()


def check_toeplitz_getitem(symmetric):
    _env()
    from contracts.sh_C03 import _collect
    from engine import symtensor as T
    from engine.symtensor import SymTensor
    from linear_operator.utils import toeplitz as tz

    base = f"C20/{'sym_' if symmetric else ''}toeplitz_getitem"

    def thunk():
        c = sym.ctx()
        n = sym.sym_int("n", 1)
        col = SymTensor.fresh("c", (n,), T.float64)
        row = col if symmetric else SymTensor.fresh("r", (n,), T.float64)
        i, j = sym.sym_int("i", 0), sym.sym_int("j", 0)
        c.assume(i < n)
        c.assume(j < n)
        got = tz.sym_toeplitz_getitem(col, i, j) if symmetric else tz.toeplitz_getitem(col, row, i, j)
        iz, jz = sym.as_z3_int(i), sym.as_z3_int(j)
        exp = z3.If(iz >= jz, col.at(iz - jz), row.at(jz - iz))
        c.prove(f"{base}/rank0", z3.BoolVal(got.dim() == 0))
        c.prove(f"{base}/value", got.at() == exp)
        return "ok"

    return _collect(sym.explore(thunk, max_paths=32), base, need=("return",), replay={"module": "contracts.sh_C20", "func": "replay", "args": ["toeplitz"]})


def check_left_interp(width, rhs_kind, br):
    _env()
    from contracts.sh_C03 import _collect
    from engine import symops as SO, symtensor as T
    from engine.symtensor import SymTensor
    from linear_operator.utils import interpolation as ip

    base = f"C20/left_interp/width={width}/rhs={rhs_kind}/batchrank={br}"

    def thunk():
        c = sym.ctx()
        bs = tuple(sym.sym_int(f"B{t}", 1) for t in range(br))
        n, m, p = sym.sym_int("n", 1), sym.sym_int("m", 1), sym.sym_int("p", 1)
        mz = sym.as_z3_int(m)
        idx = SymTensor.fresh("idx", bs + (n, width), T.int64, constraint=lambda i, v: z3.And(v >= 0, v < mz))
        val = SymTensor.fresh("val", bs + (n, width), T.float64)
        if rhs_kind == "vec":
            if br:
                raise sym.AssumptionFailed()
            rhs = SymTensor.fresh("x", (m,), T.float64)
        elif rhs_kind == "mat":
            rhs = SymTensor.fresh("x", (m, p), T.float64)
        else:
            rhs = SymTensor.fresh("x", bs + (m, p), T.float64)
        got = ip.left_interp(idx, val, rhs)
        # dense definition: out[b, r, (c)] = sum_k val[b, r, k] * rhs[b, idx[b, r, k], (c)]
        if rhs_kind == "vec":
            exp_shape = (n,)
        else:
            exp_shape = bs + (n, p)
        c.prove(f"{base}/rank", z3.BoolVal(len(got.shape) == len(exp_shape)), info=f"{got.shape} vs {exp_shape}")
        if len(got.shape) != len(exp_shape):
            return "ok"
        c.prove(f"{base}/shape", z3.And(*[sym.as_z3_int(a) == sym.as_z3_int(b) for a, b in zip(got.shape, exp_shape)]))
        t = tuple(z3.Int(c.fresh_name(f"t{j}!li")) for j in range(len(exp_shape)))
        inb = z3.And(*[z3.And(a >= 0, a < sym.as_z3_int(b)) for a, b in zip(t, exp_shape)])
        tot = None
        for k in range(width):
            if rhs_kind == "vec":
                term = val.at(t[0], k) * rhs.at(idx.at(t[0], k))
            else:
                b, r, cc = t[:-2], t[-2], t[-1]
                rb = b if rhs_kind == "bmat" else ()
                term = val.at(*b, r, k) * rhs.at(*rb, idx.at(*b, r, k), cc)
            tot = term if tot is None else tot + term
        c.prove(f"{base}/value", z3.Implies(inb, got.at(*t) == tot))
        writes = [e for e in c.events if e[0] == "inplace" and str(e[1]["owner"]).startswith("caller")]
        c.prove(f"{base}/frame", z3.BoolVal(not writes), kind="frame")
        return "ok"

    return _collect(sym.explore(thunk, max_paths=64, timeout_ms=30000), base, need=("return",), replay={"module": "contracts.sh_C20", "func": "replay", "args": ["left_interp"]})


def check_inverse_permutation(br):
    _env()
    from contracts.sh_C03 import _collect
    from engine import symtensor as T
    from engine.symtensor import SymTensor
    from linear_operator.utils import permutation as pm

    base = f"C20/inverse_permutation/batchrank={br}"

    def thunk():
        c = sym.ctx()
        bs = tuple(sym.sym_int(f"B{t}", 1) for t in range(br))
        n = sym.sym_int("n", 1)
        nz = sym.as_z3_int(n)
        # a bijection of 0..n-1 per batch member, given with its (ghost) inverse
        ginv = z3.Function(c.fresh_name("ghost_inv"), *([z3.IntSort()] * (br + 1)), z3.IntSort())
        perm = SymTensor.fresh("perm", bs + (n,), T.int64, constraint=lambda i, v: z3.And(v >= 0, v < nz, ginv(*[sym.as_z3_int(x) for x in i[:-1]], v) == sym.as_z3_int(i[-1])))
        res = pm.inverse_permutation(perm)
        c.prove(f"{base}/shape", z3.And(z3.BoolVal(len(res.shape) == br + 1), *[sym.as_z3_int(a) == sym.as_z3_int(b) for a, b in zip(res.shape, perm.shape)]))
        c.prove(f"{base}/dtype-integer", z3.BoolVal(res.dtype.kind == "i"))
        b = tuple(z3.Int(c.fresh_name(f"b{j}!ip")) for j in range(br))
        k = z3.Int(c.fresh_name("k!ip"))
        inb = perm.in_bounds(b + (k,))
        sym.instantiate_universals(b + (k,), key="scatter")
        c.prove(f"{base}/res[perm[k]]==k", z3.Implies(inb, res.at(*b, perm.at(*b, k)) == k))
        # the other direction uses surjectivity: every j in range is perm[ginv(j)]
        j = z3.Int(c.fresh_name("j!ip"))
        gj = ginv(*b, j)
        c.add_axiom(z3.Implies(z3.And(perm.in_bounds(b + (j,))), z3.And(gj >= 0, gj < nz, perm.at(*b, gj) == j)))  # ghost: perm is onto
        sym.instantiate_universals(b + (gj,), key="scatter")
        c.prove(f"{base}/perm[res[j]]==j", z3.Implies(perm.in_bounds(b + (j,)), perm.at(*b, res.at(*b, j)) == j))
        writes = [e for e in c.events if e[0] == "inplace" and str(e[1]["owner"]).startswith("caller")]
        c.prove(f"{base}/frame", z3.BoolVal(not writes), kind="frame")
        return "ok"

    return _collect(sym.explore(thunk, max_paths=32, timeout_ms=30000), base, need=("return",), replay={"module": "contracts.sh_C20", "func": "replay", "args": ["inverse_permutation"]})


def replay(what):
    import importlib

    try:
        m = importlib.import_module("contracts.rtc_C20")
    except Exception as e:  # noqa
        return {"reproduced": False, "detail": f"no native family: {e!r}"}
    fails = []
    for u in m.rtc_units("quick"):
        res = getattr(importlib.import_module(u.module), u.func)(*u.args)
        res = res if isinstance(res, list) else res.get("obligations", [])
        fails += [f"{o['name']}: {o.get('detail', '')[:200]}" for o in res if o["status"] == "bounded-fail" and what.split("_")[0] in o["name"]]
    return {"reproduced": bool(fails), "detail": "; ".join(fails[:3]) or "bounded native family passes"}


def shadow_units(tier):
    us = [conformance_unit(PID),
          Unit("C20/shadow/toeplitz_getitem", "contracts.sh_C20", "check_toeplitz_getitem", (False,), engine="shadow", timeout_s=300),
          Unit("C20/shadow/sym_toeplitz_getitem", "contracts.sh_C20", "check_toeplitz_getitem", (True,), engine="shadow", timeout_s=300)]
    for w in (1, 2) if tier == "quick" else (1, 2, 3):
        for rk in ("vec", "mat", "bmat"):
            for br in (0, 1) if tier == "quick" else (0, 1, 2):
                if rk == "vec" and br:
                    continue
                us.append(Unit(f"C20/shadow/left_interp/w={w}/{rk}/br={br}", "contracts.sh_C20", "check_left_interp", (w, rk, br), engine="shadow", timeout_s=600))
    for br in (0, 1) if tier == "quick" else (0, 1, 2):
        us.append(Unit(f"C20/shadow/inverse_permutation/br={br}", "contracts.sh_C20", "check_inverse_permutation", (br,), engine="shadow", timeout_s=300))
    return us


SH_META = {
    "functions_under_contract": ["utils/toeplitz.py::toeplitz_getitem", "utils/toeplitz.py::sym_toeplitz_getitem", "utils/interpolation.py::left_interp", "utils/permutation.py::inverse_permutation"],
    "trusted_base": ["z3", "CPython", "symtorch models (gather, index_select, scatter_ as a universally quantified fact, expand, sum)"],
    "assumptions": ["interpolation indices in range; interpolation width is part of the signature (1..3)", "inverse_permutation: the input is a bijection (given with a ghost inverse)",
                    "FFT products, toeplitz(), sparse COO utilities, stable_qr, stable_pinverse, left_t_interp, dsmm: bounded tier only"],
}
