"""Symbolic spec matrices D(op) (DESIGN §3.3) — a pure function of the CONSTRUCTOR ARGUMENTS of an
operator (read from op._args / op._kwargs as captured by LinearOperator.__init__ and, where a class
normalises its arguments, from the documented meaning), returned as a SymTensor whose entry function is
the documented meaning of the structure.  Never calls any method of the operator under test other than
reading the captured constructor arguments.  (The torch twin of this table is contracts/zoo.py.)"""
from __future__ import annotations

import builtins

import z3

from engine import sym
from engine import symops as O
from engine import symtensor as T
from engine.symtensor import Size, SymTensor


def _bshape(*shapes):
    return O.broadcast_shapes(*shapes)


def D(op) -> SymTensor:
    import linear_operator.operators as LO

    if isinstance(op, SymTensor):
        return op
    name = type(op).__name__
    f = _TABLE.get(name)
    if f is None:
        raise sym.Unsupported(f"no spec matrix for {name}")
    return f(op)


def _dense(op):
    return op._args[0]


def _diag(op):
    d = op._args[0]
    e, n = d.elem_fn(), d.shape[-1]
    zero = z3.RealVal(0)
    return SymTensor.from_elem(d.shape + (n,), d.dtype, lambda idx: z3.If(O.ix(idx[-1]) == O.ix(idx[-2]), e(tuple(idx[:-1])), zero))


def _constdiag(op):
    v = op._args[0]  # (*batch, 1)
    n = op._kwargs["diag_shape"]
    e = v.elem_fn()
    zero = z3.RealVal(0)
    return SymTensor.from_elem(v.shape[:-1] + (n, n), v.dtype, lambda idx: z3.If(O.ix(idx[-1]) == O.ix(idx[-2]), e(tuple(idx[:-2]) + (z3.IntVal(0),)), zero))


def _toeplitz(op):
    c = op._args[0]
    e, n = c.elem_fn(), c.shape[-1]
    return SymTensor.from_elem(c.shape + (n,), c.dtype, lambda idx: e(tuple(idx[:-2]) + (z3.If(O.ix(idx[-2]) >= O.ix(idx[-1]), O.ix(idx[-2]) - O.ix(idx[-1]), O.ix(idx[-1]) - O.ix(idx[-2])),)))


def _triangular(op):
    return D(op._args[0])


def _bcast(t: SymTensor, batch):
    """entry function of t broadcast to batch + t.shape[-2:]"""
    e, sh = t.elem_fn(), t.shape
    return lambda idx: e(O.bidx(sh[:-2], tuple(idx[:-2])) + (idx[-2], idx[-1]))


def _sum(op):
    parts = [D(a) for a in op._args]
    batch = _bshape(*[p.shape[:-2] for p in parts])
    fs = [_bcast(p, batch) for p in parts]
    shape = batch + parts[0].shape[-2:]

    def elem(idx):
        r = fs[0](idx)
        for f in fs[1:]:
            r = r + f(idx)
        return r
    return SymTensor.from_elem(shape, parts[0].dtype, elem)


def _mul(op):
    a, b = D(op._args[0]), D(op._args[1])
    batch = _bshape(a.shape[:-2], b.shape[:-2])
    fa, fb = _bcast(a, batch), _bcast(b, batch)
    return SymTensor.from_elem(batch + a.shape[-2:], a.dtype, lambda idx: fa(idx) * fb(idx))


def _constmul(op):
    a, c = D(op._args[0]), op._args[1]
    ce, csh = c.elem_fn(), c.shape
    batch = _bshape(a.shape[:-2], csh)
    fa = _bcast(a, batch)
    return SymTensor.from_elem(batch + a.shape[-2:], a.dtype, lambda idx: fa(idx) * ce(O.bidx(csh, tuple(idx[:-2]))))


def _matmul(op):
    a, b = D(op._args[0]), D(op._args[1])
    return O.matmul(a, b)


def _root(op):
    r = D(op._args[0])
    return O.matmul(r, O.transpose(r, -1, -2))


def _kron(op):
    parts = [D(a) for a in op._args]
    batch = _bshape(*[p.shape[:-2] for p in parts])
    fs = [_bcast(p, batch) for p in parts]
    M, N = 1, 1
    for p in parts:
        M, N = M * p.shape[-2], N * p.shape[-1]

    def elem(idx):
        i, j = O.ix(idx[-2]), O.ix(idx[-1])
        # strides of the mixed radix representation (first factor = most significant)
        res = None
        fi, fj = 1, 1
        terms = []
        for p, f in reversed(list(zip(parts, fs))):
            m, n = O.ix(p.shape[-2]), O.ix(p.shape[-1])
            terms.append(f(tuple(idx[:-2]) + ((i / fi) % m, (j / fj) % n)))
            fi, fj = fi * m, fj * n
        for t in terms:
            res = t if res is None else res * t
        return res
    return SymTensor.from_elem(batch + (M, N), parts[0].dtype, elem)


def _blockdiag(op):
    B = D(op._args[0])  # (*batch, k, m, n)
    e = B.elem_fn()
    k, m, n = B.shape[-3:]
    zero = z3.RealVal(0)

    def elem(idx):
        i, j = O.ix(idx[-2]), O.ix(idx[-1])
        mi, ni = O.ix(m), O.ix(n)
        return z3.If(i / mi == j / ni, e(tuple(idx[:-2]) + (i / mi, i % mi, j % ni)), zero)
    return SymTensor.from_elem(B.shape[:-3] + (k * m, k * n), B.dtype, elem)


def _blockinterleaved(op):
    B = D(op._args[0])
    e = B.elem_fn()
    k, m, n = B.shape[-3:]
    zero = z3.RealVal(0)

    def elem(idx):
        i, j = O.ix(idx[-2]), O.ix(idx[-1])
        kk = O.ix(k)
        return z3.If(i % kk == j % kk, e(tuple(idx[:-2]) + (i % kk, i / kk, j / kk)), zero)
    return SymTensor.from_elem(B.shape[:-3] + (k * m, k * n), B.dtype, elem)


def _sumbatch(op):
    B = D(op._args[0])
    return O.sum_(B, dim=-3)


def _batchrepeat(op):
    a = D(op._args[0])
    rep = op._kwargs["batch_repeat"]
    e, sh = a.elem_fn(), a.shape
    rep = tuple(rep)
    pad = len(rep) - (len(sh) - 2)
    base_b = (1,) * builtins.max(pad, 0) + tuple(sh[:-2])
    rep = (1,) * builtins.max(-pad, 0) + rep
    batch = Size(r * s for r, s in zip(rep, base_b))
    off = len(base_b) - (len(sh) - 2)

    def elem(idx):
        bi = [O.ix(i) % O.ix(s) for i, s in zip(idx[:-2], base_b)]
        return e(tuple(bi[off:]) + (idx[-2], idx[-1]))
    return SymTensor.from_elem(batch + sh[-2:], a.dtype, elem)


def _identity(op):
    n = op._kwargs["diag_shape"] if "diag_shape" in op._kwargs else op._args[0]
    batch = tuple(op._kwargs.get("batch_shape", ()))
    dt = op._kwargs.get("dtype") or T.float32
    return SymTensor.from_elem(Size(batch) + (n, n), dt, lambda idx: z3.If(O.ix(idx[-1]) == O.ix(idx[-2]), z3.RealVal(1), z3.RealVal(0)))


def _zero(op):
    sizes = op._args
    dt = op._kwargs.get("dtype") or T.DEFAULT_DTYPE
    return SymTensor.from_elem(Size(sizes), dt, lambda idx: z3.RealVal(0))


def _interp(op):
    """W_l D(K) W_r^T with W[r, idx[r, k]] += val[r, k] (duplicates accumulate); interpolation width concrete"""
    K = D(op._args[0])
    li, lv, ri, rv = op._args[1:5]
    wl = sym.concrete(li.shape[-1]) if not isinstance(li.shape[-1], builtins.int) else li.shape[-1]
    wr = sym.concrete(ri.shape[-1]) if not isinstance(ri.shape[-1], builtins.int) else ri.shape[-1]
    if wl is None or wr is None:
        raise sym.Unsupported("symbolic interpolation width")
    batch = _bshape(K.shape[:-2], li.shape[:-2], ri.shape[:-2])
    ke, ksh = K.elem_fn(), K.shape
    lie, lve, rie, rve = li.elem_fn(), lv.elem_fn(), ri.elem_fn(), rv.elem_fn()

    def elem(idx):
        b, i, j = tuple(idx[:-2]), idx[-2], idx[-1]
        tot = None
        for a in range(wl):
            for c in range(wr):
                la = O.bidx(li.shape[:-2], b) + (i, z3.IntVal(a))
                rc = O.bidx(ri.shape[:-2], b) + (j, z3.IntVal(c))
                term = lve(O.bidx(lv.shape[:-2], b) + (i, z3.IntVal(a))) * ke(O.bidx(ksh[:-2], b) + (lie(la), rie(rc))) * rve(O.bidx(rv.shape[:-2], b) + (j, z3.IntVal(c)))
                tot = term if tot is None else tot + term
        return tot
    return SymTensor.from_elem(batch + (li.shape[-2], ri.shape[-2]), K.dtype, elem)


def _cat(op):
    parts = [D(a) for a in op._args]
    dim = op._kwargs.get("dim", 0)
    n = len(parts[0].shape)
    return O.cat(parts, dim if dim < 0 else dim - n)


def _chol(op):
    """upper ? R^T R : L L^T  (the flag is read from the constructed object's ``upper`` attribute together
    with the factor it stores: the constructor may normalise an upper factor to the equivalent lower one)"""
    r = D(op._args[0])
    if getattr(op, "upper", False):
        return O.matmul(O.transpose(r, -1, -2), r)
    return O.matmul(r, O.transpose(r, -1, -2))


_TABLE = {
    "CatLinearOperator": _cat,
    "InterpolatedLinearOperator": _interp,
    "DenseLinearOperator": _dense,
    "DiagLinearOperator": _diag,
    "ConstantDiagLinearOperator": _constdiag,
    "ToeplitzLinearOperator": _toeplitz,
    "TriangularLinearOperator": _triangular,
    "SumLinearOperator": _sum,
    "PsdSumLinearOperator": _sum,
    "AddedDiagLinearOperator": _sum,
    "LowRankRootAddedDiagLinearOperator": _sum,
    "KroneckerProductAddedDiagLinearOperator": _sum,
    "SumKroneckerLinearOperator": _sum,
    "MulLinearOperator": _mul,
    "ConstantMulLinearOperator": _constmul,
    "MatmulLinearOperator": _matmul,
    "RootLinearOperator": _root,
    "LowRankRootLinearOperator": _root,
    "CholLinearOperator": _chol,
    "KroneckerProductLinearOperator": _kron,
    "KroneckerProductTriangularLinearOperator": _kron,
    "KroneckerProductDiagLinearOperator": _kron,
    "BlockDiagLinearOperator": _blockdiag,
    "BlockInterleavedLinearOperator": _blockinterleaved,
    "SumBatchLinearOperator": _sumbatch,
    "BatchRepeatLinearOperator": _batchrepeat,
    "IdentityLinearOperator": _identity,
    "ZeroLinearOperator": _zero,
}


def same_tensor_goals(c, name, got: SymTensor, exp: SymTensor, dtype=True):
    """obligations: got == exp (rank, shape, dtype, every entry at a skolem index)"""
    c.prove(f"{name}/rank", z3.BoolVal(len(got.shape) == len(exp.shape)), info=f"{got.shape} vs {exp.shape}")
    if len(got.shape) != len(exp.shape):
        return
    c.prove(f"{name}/shape", z3.And(*[sym.as_z3_int(a) == sym.as_z3_int(b) for a, b in zip(got.shape, exp.shape)]) if got.shape else z3.BoolVal(True),
            info=f"{got.shape} vs {exp.shape}")
    if dtype:
        c.prove(f"{name}/dtype", z3.BoolVal(got.dtype is exp.dtype), info=f"{got.dtype} vs {exp.dtype}")
    idx = tuple(z3.Int(c.fresh_name(f"t{j}!eq")) for j in range(len(got.shape)))
    inb = exp.in_bounds(idx)
    ge, ee = got.at(*idx), exp.at(*idx)
    if ge.sort() != ee.sort():
        ge, ee = sym.as_real(ge) if not z3.is_bool(ge) else ge, sym.as_real(ee) if not z3.is_bool(ee) else ee
    c.prove(f"{name}/value", z3.Implies(inb, ge == ee))


def repr_invariant_goals(c, name, op, _depth=0, _path="result"):
    """representation invariants of an operator-valued result (walks the operator tree):
    a TriangularLinearOperator node flagged upper (resp. lower) has a matrix that IS upper (resp. lower) triangular —
    every solve through that node substitutes with the triangle the flag names, so a wrong flag is a wrong solve."""
    from linear_operator.operators import LinearOperator, TriangularLinearOperator

    if _depth > 6 or not isinstance(op, LinearOperator):
        return
    if isinstance(op, TriangularLinearOperator) and hasattr(op, "_tensor"):  # (the diagonal family subclasses Triangular without a _tensor: triangular either way)
        try:
            Dn = D(op._tensor) if isinstance(op._tensor, LinearOperator) else op._tensor
        except Exception:  # noqa
            Dn = None
        if Dn is not None and Dn.elem_fn() is not None:
            idx = tuple(z3.Int(c.fresh_name(f"t{j}!tri")) for j in range(len(Dn.shape)))
            i, j = idx[-2], idx[-1]
            wrong = (i > j) if op.upper else (j > i)
            c.prove(f"{name}/repr-invariant/{_path}:{'upper' if op.upper else 'lower'}-triangular", z3.Implies(z3.And(Dn.in_bounds(idx), wrong), sym.as_real(Dn.at(*idx)) == 0))
    for k, a in enumerate(tuple(op._args) + tuple(v for v in op._kwargs.values() if isinstance(v, LinearOperator))):
        if isinstance(a, LinearOperator):
            repr_invariant_goals(c, name, a, _depth + 1, f"{_path}.{type(op).__name__}[{k}]")


def install_repr_invariants(op, _depth=0):
    """precondition side of repr_invariant_goals: the tensors the CALLER wrapped in TriangularLinearOperator(upper=u) are
    triangular with that orientation.  Encoded in the term (not as a side axiom) so that it holds under summation binders."""
    from linear_operator.operators import LinearOperator, TriangularLinearOperator

    if _depth > 6 or not isinstance(op, LinearOperator):
        return
    if isinstance(op, TriangularLinearOperator) and hasattr(op, "_tensor"):
        t = op._tensor
        while isinstance(t, LinearOperator) and len(t._args) == 1 and type(t).__name__ == "DenseLinearOperator":
            t = t._args[0]
        st = getattr(t, "storage", None)
        inv, fwd = getattr(t, "_inv", None), getattr(t, "_fwd", None)
        if st is not None and not getattr(st, "_tri_inv", False) and (inv is not None or fwd is None):
            old, upper = st.elem, bool(op.upper)

            def elem(idx, old=old, upper=upper, inv=inv):
                # the triangle is a property of the VIEW the operator wraps (e.g. a transposed view of the caller's tensor)
                cond, vidx = (z3.BoolVal(True), idx) if inv is None else inv(tuple(idx))
                r, cc = O.ix(vidx[-2]), O.ix(vidx[-1])
                return z3.If(z3.And(cond, (cc < r) if upper else (cc > r)), z3.RealVal(0), old(idx))
            st.elem = elem
            st._tri_inv = True
    for a in op._args:
        if isinstance(a, LinearOperator):
            install_repr_invariants(a, _depth + 1)
