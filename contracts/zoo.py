"""Operator zoo + independent dense oracle D(op) (torch version of DESIGN §3.3) for the bounded
(run-time contract) tier.  Every entry builds an operator from explicit constructor arguments and,
independently, the dense (batched) matrix those arguments denote under the documented meaning of
the structure.  Nothing here calls to_dense()/matmul of the operator under test."""
from __future__ import annotations

import itertools
import math
import os
import sys
import zlib
from dataclasses import dataclass
from typing import Callable, List, Optional

REPO = os.environ.get("VERIF_REPO", "/repo")
if REPO in sys.path:
    sys.path.remove(REPO)
sys.path.insert(0, REPO)

import torch  # noqa: E402

import linear_operator  # noqa: E402
from linear_operator import operators as O  # noqa: E402

assert os.path.abspath(linear_operator.__file__).startswith(os.path.abspath(REPO)), linear_operator.__file__


def gen(seed):
    g = torch.Generator()
    g.manual_seed(int(seed))
    return g


def rn(g, *shape, dtype=torch.float64):
    return torch.randn(*shape, generator=g, dtype=torch.float64).to(dtype)


def spd(g, batch, n, dtype, cond=10.0):
    """random SPD with spectrum in [1, cond] (geometric), random orthogonal basis"""
    q, _ = torch.linalg.qr(torch.randn(*batch, n, n, generator=g, dtype=torch.float64))
    ev = torch.logspace(0, math.log10(cond), n, dtype=torch.float64) if n > 1 else torch.ones(1, dtype=torch.float64)
    a = (q * ev) @ q.mT
    a = 0.5 * (a + a.mT)
    return a.to(dtype)


def kron(a, b):
    """batched Kronecker product of dense matrices"""
    bs = torch.broadcast_shapes(a.shape[:-2], b.shape[:-2])
    a = a.expand(*bs, *a.shape[-2:])
    b = b.expand(*bs, *b.shape[-2:])
    r = a[..., :, None, :, None] * b[..., None, :, None, :]
    return r.reshape(*bs, a.shape[-2] * b.shape[-2], a.shape[-1] * b.shape[-1])


def toeplitz_dense(c):
    n = c.shape[-1]
    i = torch.arange(n)
    return c[..., (i[:, None] - i[None, :]).abs()]


def block_diag_dense(blocks):
    # blocks: (*batch, k, m, n) -> (*batch, k*m, k*n), block b at rows b*m.., cols b*n..
    *batch, k, m, n = blocks.shape
    out = torch.zeros(*batch, k * m, k * n, dtype=blocks.dtype)
    for b in range(k):
        out[..., b * m:(b + 1) * m, b * n:(b + 1) * n] = blocks[..., b, :, :]
    return out


def block_interleaved_dense(blocks):
    # D[i, j] = [i mod k == j mod k] * B[i mod k, i div k, j div k]
    *batch, k, m, n = blocks.shape
    out = torch.zeros(*batch, k * m, k * n, dtype=blocks.dtype)
    for b in range(k):
        out[..., b::k, b::k] = blocks[..., b, :, :]
    return out


def interp_matrix(idx, val, ncols):
    # W[r, idx[r, k]] += val[r, k]  (duplicates accumulate)
    *batch, r, k = idx.shape
    W = torch.zeros(*batch, r, ncols, dtype=val.dtype)
    W.scatter_add_(-1, idx, val)
    return W


@dataclass
class Case:
    name: str
    cls: str
    build: Callable  # (g, dtype, batch, n) -> (op, dense)
    psd: bool = False
    square: bool = True
    min_n: int = 1
    sizes_note: str = ""


def _dense(g, dt, batch, n):
    t = rn(g, *batch, n, n + 1, dtype=dt)
    return O.DenseLinearOperator(t), t.clone()


def _dense_psd(g, dt, batch, n):
    a = spd(g, batch, n, dt)
    return O.DenseLinearOperator(a), a.clone()


def _diag(g, dt, batch, n):
    d = rn(g, *batch, n, dtype=dt).abs() + 0.5
    return O.DiagLinearOperator(d), torch.diag_embed(d)


def _constdiag(g, dt, batch, n):
    v = rn(g, *batch, 1, dtype=dt).abs() + 0.5
    return O.ConstantDiagLinearOperator(v, diag_shape=n), torch.diag_embed(v.expand(*batch, n))


def _identity(g, dt, batch, n):
    return O.IdentityLinearOperator(n, batch_shape=torch.Size(batch), dtype=dt), torch.eye(n, dtype=dt).expand(*batch, n, n).clone()


def _zero(g, dt, batch, n):
    return O.ZeroLinearOperator(*batch, n, n + 1, dtype=dt), torch.zeros(*batch, n, n + 1, dtype=dt)


def _toeplitz(g, dt, batch, n):
    c = rn(g, *batch, n, dtype=dt) * 0.3
    c[..., 0] = c[..., 0].abs() + n  # diagonally dominant => SPD
    return O.ToeplitzLinearOperator(c), toeplitz_dense(c)


def _tri(upper):
    def f(g, dt, batch, n):
        t = rn(g, *batch, n, n, dtype=dt)
        t = (t.triu() if upper else t.tril())
        t = t + torch.diag_embed(t.diagonal(dim1=-1, dim2=-2).sign() + (t.diagonal(dim1=-1, dim2=-2) == 0).to(dt)) * 2
        return O.TriangularLinearOperator(t, upper=upper), t.clone()
    return f


def _chol(upper):
    def f(g, dt, batch, n):
        t = rn(g, *batch, n, n, dtype=dt).tril()
        t = t + torch.diag_embed(t.diagonal(dim1=-1, dim2=-2).abs() + 1.0) - torch.diag_embed(t.diagonal(dim1=-1, dim2=-2))
        if upper:
            r = t.mT.contiguous()
            return O.CholLinearOperator(O.TriangularLinearOperator(r, upper=True), upper=True), r.mT @ r
        return O.CholLinearOperator(O.TriangularLinearOperator(t)), t @ t.mT
    return f


def _root(g, dt, batch, n):
    r = rn(g, *batch, n, max(1, n - 1), dtype=dt)
    return O.RootLinearOperator(r), r @ r.mT


def _lowrankroot(g, dt, batch, n):
    r = rn(g, *batch, n, max(1, n // 2), dtype=dt)
    return O.LowRankRootLinearOperator(r), r @ r.mT


def _factor_sizes(n):
    # n = a*b with a,b>=1 : choose a = smallest divisor >=2 (or 1)
    for a in range(2, n + 1):
        if n % a == 0:
            return a, n // a
    return 1, n


def _kron(g, dt, batch, n):
    a_, b_ = _factor_sizes(n)
    A, B = spd(g, batch, a_, dt), spd(g, batch, b_, dt)
    return O.KroneckerProductLinearOperator(O.DenseLinearOperator(A), O.DenseLinearOperator(B)), kron(A, B)


def _kron3_rect(g, dt, batch, n):
    A, B, C = rn(g, *batch, 2, 3, dtype=dt), rn(g, *batch, n, 1, dtype=dt), rn(g, *batch, 1, 2, dtype=dt)
    return O.KroneckerProductLinearOperator(A, B, C), kron(kron(A, B), C)


def _kron_tri(g, dt, batch, n):
    a_, b_ = _factor_sizes(n)
    (_, A), (_, B) = _tri(False)(g, dt, batch, a_), _tri(False)(g, dt, batch, b_)
    return O.KroneckerProductTriangularLinearOperator(O.TriangularLinearOperator(A), O.TriangularLinearOperator(B)), kron(A, B)


def _kron_diag(g, dt, batch, n):
    a_, b_ = _factor_sizes(n)
    d1, d2 = rn(g, *batch, a_, dtype=dt).abs() + 0.5, rn(g, *batch, b_, dtype=dt).abs() + 0.5
    return O.KroneckerProductDiagLinearOperator(O.DiagLinearOperator(d1), O.DiagLinearOperator(d2)), kron(torch.diag_embed(d1), torch.diag_embed(d2))


def _kpad(const):
    def f(g, dt, batch, n):
        K, Kd = _kron(g, dt, batch, n)
        if const:
            v = rn(g, *batch, 1, dtype=dt).abs() + 0.5
            D, Dd = O.ConstantDiagLinearOperator(v, diag_shape=n), torch.diag_embed(v.expand(*batch, n))
        else:
            d = rn(g, *batch, n, dtype=dt).abs() + 0.5
            D, Dd = O.DiagLinearOperator(d), torch.diag_embed(d)
        return O.KroneckerProductAddedDiagLinearOperator(K, D), Kd + Dd
    return f


def _sumkron(g, dt, batch, n):
    (K1, d1), (K2, d2) = _kron(g, dt, batch, n), _kron(g, dt, batch, n)
    return O.SumKroneckerLinearOperator(K1, K2), d1 + d2


def _addeddiag(g, dt, batch, n):
    a = spd(g, batch, n, dt)
    d = rn(g, *batch, n, dtype=dt).abs() + 0.5
    return O.AddedDiagLinearOperator(O.DenseLinearOperator(a), O.DiagLinearOperator(d)), a + torch.diag_embed(d)


def _lrrad(g, dt, batch, n):
    r = rn(g, *batch, n, max(1, n // 2), dtype=dt)
    d = rn(g, *batch, n, dtype=dt).abs() + 0.5
    return O.LowRankRootAddedDiagLinearOperator(O.LowRankRootLinearOperator(r), O.DiagLinearOperator(d)), r @ r.mT + torch.diag_embed(d)


def _sum(g, dt, batch, n):
    a = spd(g, batch, n, dt)
    c = rn(g, *batch, n, dtype=dt) * 0.3
    c[..., 0] = c[..., 0].abs() + n
    return O.SumLinearOperator(O.DenseLinearOperator(a), O.ToeplitzLinearOperator(c)), a + toeplitz_dense(c)


def _psdsum(g, dt, batch, n):
    a, b = spd(g, batch, n, dt), spd(g, batch, n, dt)
    return O.PsdSumLinearOperator(O.DenseLinearOperator(a), O.DenseLinearOperator(b)), a + b


def _matmul(g, dt, batch, n):
    a, b = rn(g, *batch, n, n + 1, dtype=dt), rn(g, *batch, n + 1, n, dtype=dt)
    return O.MatmulLinearOperator(O.DenseLinearOperator(a), O.DenseLinearOperator(b)), a @ b


def _mul(g, dt, batch, n):
    a, b = spd(g, batch, n, dt), spd(g, batch, n, dt)
    return O.MulLinearOperator(O.RootLinearOperator(torch.linalg.cholesky(a)), O.RootLinearOperator(torch.linalg.cholesky(b))), a * b


def _constmul(g, dt, batch, n):
    a = spd(g, batch, n, dt)
    c = rn(g, *batch, dtype=dt).abs() + 0.5 if batch else torch.tensor(1.7, dtype=dt)
    return O.ConstantMulLinearOperator(O.DenseLinearOperator(a), c), a * c[..., None, None]


def _blockdiag(g, dt, batch, n):
    k = 2
    blocks = spd(g, (*batch, k), n, dt)
    return O.BlockDiagLinearOperator(O.DenseLinearOperator(blocks)), block_diag_dense(blocks)


def _blockdiag_rect3(g, dt, batch, n):
    blocks = rn(g, *batch, 3, n, n, dtype=dt)
    return O.BlockDiagLinearOperator(O.DenseLinearOperator(blocks)), block_diag_dense(blocks)


def _blockinter(g, dt, batch, n):
    k = 2
    blocks = spd(g, (*batch, k), n, dt)
    return O.BlockInterleavedLinearOperator(O.DenseLinearOperator(blocks)), block_interleaved_dense(blocks)


def _blockinter3(g, dt, batch, n):
    blocks = spd(g, (*batch, 3), n, dt)
    return O.BlockInterleavedLinearOperator(O.DenseLinearOperator(blocks)), block_interleaved_dense(blocks)


def _sumbatch(g, dt, batch, n):
    blocks = spd(g, (*batch, 3), n, dt)
    return O.SumBatchLinearOperator(O.DenseLinearOperator(blocks)), blocks.sum(-3)


def _batchrepeat(g, dt, batch, n):
    a = spd(g, (), n, dt)
    rep = torch.Size(batch) if batch else torch.Size([1])
    return O.BatchRepeatLinearOperator(O.DenseLinearOperator(a), rep), a.repeat(*rep, 1, 1)


def _batchrepeat2(g, dt, batch, n):
    a = spd(g, (2,), n, dt)
    rep = torch.Size((*batch, 3)) if batch else torch.Size([3])
    return O.BatchRepeatLinearOperator(O.DenseLinearOperator(a), rep), a.repeat(*rep, 1, 1)


def _cat(dim):
    def f(g, dt, batch, n):
        if dim in (-1, -2):
            a, b = rn(g, *batch, n, n, dtype=dt), rn(g, *batch, *((n, 2) if dim == -1 else (2, n)), dtype=dt)
            return O.CatLinearOperator(O.DenseLinearOperator(a), O.DenseLinearOperator(b), dim=dim), torch.cat([a, b], dim)
        a, b = rn(g, 2, *batch[1:], n, n, dtype=dt), rn(g, 1, *batch[1:], n, n, dtype=dt)
        return O.CatLinearOperator(O.DenseLinearOperator(a), O.DenseLinearOperator(b), dim=0), torch.cat([a, b], 0)
    return f


def _interp(g, dt, batch, n):
    m = n + 1  # base size
    base = spd(g, batch, m, dt)
    w = 2
    li = torch.randint(0, m, (*batch, n, w), generator=g)
    ri = torch.randint(0, m, (*batch, n + 2, w), generator=g)
    lv, rv = rn(g, *batch, n, w, dtype=dt), rn(g, *batch, n + 2, w, dtype=dt)
    Wl, Wr = interp_matrix(li, lv, m), interp_matrix(ri, rv, m)
    return O.InterpolatedLinearOperator(O.DenseLinearOperator(base), li, lv, ri, rv), Wl @ base @ Wr.mT


def _interp_sym(g, dt, batch, n):
    m = n + 1
    base = spd(g, batch, m, dt)
    li = torch.randint(0, m, (*batch, n, 2), generator=g)
    lv = rn(g, *batch, n, 2, dtype=dt)
    Wl = interp_matrix(li, lv, m)
    d = Wl @ base @ Wl.mT
    return O.InterpolatedLinearOperator(O.DenseLinearOperator(base), li, lv, li.clone(), lv.clone()), d


def _masked(g, dt, batch, n):
    m = n + 2
    base = rn(g, *batch, m, m + 1, dtype=dt)
    rm = torch.zeros(m, dtype=torch.bool)
    rm[torch.randperm(m, generator=g)[:n]] = True
    cm = torch.zeros(m + 1, dtype=torch.bool)
    cm[torch.randperm(m + 1, generator=g)[:n + 1]] = True
    return O.MaskedLinearOperator(O.DenseLinearOperator(base), rm, cm), base[..., rm, :][..., :, cm]


def _perm(g, dt, batch, n):
    if batch:
        perm = torch.stack([torch.randperm(n, generator=g) for _ in range(math.prod(batch))]).reshape(*batch, n)
    else:
        perm = torch.randperm(n, generator=g)
    D = torch.zeros(*batch, n, n, dtype=torch.float32)
    D.scatter_(-1, perm.unsqueeze(-1), 1.0)
    return O.PermutationLinearOperator(perm), D


def _tperm(g, dt, batch, n):
    m = n
    N = m * m
    D = torch.zeros(N, N, dtype=torch.float32)
    for a in range(m):
        for b in range(m):
            D[a * m + b, b * m + a] = 1.0
    return O.TransposePermutationLinearOperator(m), D


def _rbf(x1, x2, lengthscale, **kw):
    d = (x1.unsqueeze(-2) - x2.unsqueeze(-3)).pow(2).sum(-1)
    return torch.exp(-0.5 * d / lengthscale.unsqueeze(-1).unsqueeze(-1) ** 2)


def _kernel(g, dt, batch, n):
    x1, x2 = rn(g, *batch, n, 2, dtype=dt), rn(g, *batch, n + 1, 2, dtype=dt)
    ls = rn(g, *batch, dtype=dt).abs() + 0.7 if batch else torch.tensor(1.3, dtype=dt)
    return O.KernelLinearOperator(x1, x2, covar_func=_rbf, lengthscale=ls, num_nonbatch_dimensions={"lengthscale": 0}), _rbf(x1, x2, ls)


class _UserOp(O.LinearOperator):
    """minimal user subclass: only _matmul, _size, _transpose_nonbatch"""

    def __init__(self, t):
        super().__init__(t)
        self.t_ = t

    def _matmul(self, rhs):
        return self.t_ @ rhs

    def _size(self):
        return self.t_.shape

    def _transpose_nonbatch(self):
        return _UserOp(self.t_.mT)


def _user(g, dt, batch, n):
    t = rn(g, *batch, n, n + 1, dtype=dt)
    return _UserOp(t), t.clone()


def _user_psd(g, dt, batch, n):
    a = spd(g, batch, n, dt)
    return _UserOp(a), a.clone()


def _nested_sum_kron_diag(g, dt, batch, n):
    (K, Kd), (D, Dd) = _kron(g, dt, batch, n), _diag(g, dt, batch, n)
    (R, Rd) = _root(g, dt, batch, n)
    return (K + R) + D, Kd + Rd + Dd


def _nested_blockdiag_toeplitz(g, dt, batch, n):
    c = rn(g, *batch, 2, n, dtype=dt) * 0.3
    c[..., 0] = c[..., 0].abs() + n
    return O.BlockDiagLinearOperator(O.ToeplitzLinearOperator(c)), block_diag_dense(toeplitz_dense(c))


def _nested_constmul_interp(g, dt, batch, n):
    op, d = _interp_sym(g, dt, batch, n)
    return O.ConstantMulLinearOperator(op, torch.tensor(2.5, dtype=dt)), d * 2.5


def _nested_matmul_diag_dense(g, dt, batch, n):
    (D, Dd) = _diag(g, dt, batch, n)
    a = rn(g, *batch, n, n, dtype=dt)
    return O.MatmulLinearOperator(D, O.DenseLinearOperator(a)), Dd @ a


def _nested_root_kron(g, dt, batch, n):
    a_, b_ = _factor_sizes(n)
    A, B = rn(g, *batch, a_, 2, dtype=dt), rn(g, *batch, b_, 1, dtype=dt)
    R = kron(A, B)
    return O.RootLinearOperator(O.KroneckerProductLinearOperator(A, B)), R @ R.mT


def _nested_sumbatch_kron(g, dt, batch, n):
    a_, b_ = _factor_sizes(n)
    A, B = spd(g, (*batch, 2), a_, dt), spd(g, (*batch, 2), b_, dt)
    return O.SumBatchLinearOperator(O.KroneckerProductLinearOperator(A, B)), kron(A, B).sum(-3)


def _nested_interp_toeplitz(g, dt, batch, n):
    m = n + 1
    c = rn(g, *batch, m, dtype=dt) * 0.3
    c[..., 0] = c[..., 0].abs() + m
    li = torch.randint(0, m, (*batch, n, 2), generator=g)
    lv = rn(g, *batch, n, 2, dtype=dt)
    Wl = interp_matrix(li, lv, m)
    return O.InterpolatedLinearOperator(O.ToeplitzLinearOperator(c), li, lv, li.clone(), lv.clone()), Wl @ toeplitz_dense(c) @ Wl.mT


def _interp_root(g, dt, batch, n):
    m = n + 1
    R = rn(g, *batch, m, max(1, n - 1), dtype=dt)
    li = torch.randint(0, m, (*batch, n, 2), generator=g)
    ri = torch.randint(0, m, (*batch, n + 1, 2), generator=g)
    lv, rv = rn(g, *batch, n, 2, dtype=dt), rn(g, *batch, n + 1, 2, dtype=dt)
    Wl, Wr = interp_matrix(li, lv, m), interp_matrix(ri, rv, m)
    return O.InterpolatedLinearOperator(O.RootLinearOperator(R), li, lv, ri, rv), Wl @ (R @ R.mT) @ Wr.mT


def _interp_root_sq(g, dt, batch, n):
    m = n + 1
    R = rn(g, *batch, m, max(1, n - 1), dtype=dt)
    li = torch.randint(0, m, (*batch, n, 2), generator=g)
    ri = torch.randint(0, m, (*batch, n, 2), generator=g)
    lv, rv = rn(g, *batch, n, 2, dtype=dt), rn(g, *batch, n, 2, dtype=dt)
    Wl, Wr = interp_matrix(li, lv, m), interp_matrix(ri, rv, m)
    return O.InterpolatedLinearOperator(O.RootLinearOperator(R), li, lv, ri, rv), Wl @ (R @ R.mT) @ Wr.mT


CASES: List[Case] = [
    Case("dense_rect", "DenseLinearOperator", _dense, square=False),
    Case("dense_psd", "DenseLinearOperator", _dense_psd, psd=True),
    Case("diag", "DiagLinearOperator", _diag, psd=True),
    Case("constdiag", "ConstantDiagLinearOperator", _constdiag, psd=True),
    Case("identity", "IdentityLinearOperator", _identity, psd=True),
    Case("zero_rect", "ZeroLinearOperator", _zero, square=False),
    Case("toeplitz", "ToeplitzLinearOperator", _toeplitz, psd=True),
    Case("tri_lower", "TriangularLinearOperator", _tri(False)),
    Case("tri_upper", "TriangularLinearOperator", _tri(True)),
    Case("chol_lower", "CholLinearOperator", _chol(False), psd=True),
    Case("chol_upper", "CholLinearOperator", _chol(True), psd=True),
    Case("root", "RootLinearOperator", _root),
    Case("lowrankroot", "LowRankRootLinearOperator", _lowrankroot),
    Case("kron2", "KroneckerProductLinearOperator", _kron, psd=True),
    Case("kron3_rect", "KroneckerProductLinearOperator", _kron3_rect, square=False),
    Case("kron_tri", "KroneckerProductTriangularLinearOperator", _kron_tri),
    Case("kron_diag", "KroneckerProductDiagLinearOperator", _kron_diag, psd=True),
    Case("kpad_const", "KroneckerProductAddedDiagLinearOperator", _kpad(True), psd=True),
    Case("kpad_diag", "KroneckerProductAddedDiagLinearOperator", _kpad(False), psd=True),
    Case("sumkron", "SumKroneckerLinearOperator", _sumkron, psd=True),
    Case("addeddiag", "AddedDiagLinearOperator", _addeddiag, psd=True),
    Case("lrr_addeddiag", "LowRankRootAddedDiagLinearOperator", _lrrad, psd=True),
    Case("sum", "SumLinearOperator", _sum, psd=True),
    Case("psdsum", "PsdSumLinearOperator", _psdsum, psd=True),
    Case("matmul", "MatmulLinearOperator", _matmul),
    Case("mul", "MulLinearOperator", _mul, psd=True),
    Case("constmul", "ConstantMulLinearOperator", _constmul, psd=True),
    Case("blockdiag", "BlockDiagLinearOperator", _blockdiag, psd=True),
    Case("blockdiag3", "BlockDiagLinearOperator", _blockdiag_rect3),
    Case("blockinterleaved", "BlockInterleavedLinearOperator", _blockinter, psd=True),
    Case("blockinterleaved3", "BlockInterleavedLinearOperator", _blockinter3, psd=True),
    Case("sumbatch", "SumBatchLinearOperator", _sumbatch, psd=True),
    Case("batchrepeat", "BatchRepeatLinearOperator", _batchrepeat, psd=True),
    Case("batchrepeat2", "BatchRepeatLinearOperator", _batchrepeat2, psd=True),
    Case("cat_cols", "CatLinearOperator", _cat(-1), square=False),
    Case("cat_rows", "CatLinearOperator", _cat(-2), square=False),
    Case("cat_batch", "CatLinearOperator", _cat(0), sizes_note="needs batch rank>=1"),
    Case("interp", "InterpolatedLinearOperator", _interp, square=False),
    Case("interp_sym", "InterpolatedLinearOperator", _interp_sym),
    Case("masked", "MaskedLinearOperator", _masked, square=False),
    Case("perm", "PermutationLinearOperator", _perm),
    Case("tperm", "TransposePermutationLinearOperator", _tperm, sizes_note="no batch"),
    Case("kernel", "KernelLinearOperator", _kernel, square=False),
    Case("user_rect", "_UserOp", _user, square=False),
    Case("user_psd", "_UserOp", _user_psd, psd=True),
    Case("nest_sum_kron_root_diag", "nested", _nested_sum_kron_diag, psd=True),
    Case("nest_blockdiag_toeplitz", "nested", _nested_blockdiag_toeplitz, psd=True),
    Case("nest_constmul_interp", "nested", _nested_constmul_interp),
    Case("nest_matmul_diag_dense", "nested", _nested_matmul_diag_dense),
    Case("nest_root_kron", "nested", _nested_root_kron),
    Case("nest_sumbatch_kron", "nested", _nested_sumbatch_kron, psd=True),
    Case("nest_interp_toeplitz", "nested", _nested_interp_toeplitz),
    Case("nest_interp_root", "nested", _interp_root, square=False),
    Case("nest_interp_root_sq", "nested", _interp_root_sq),
]
BY_NAME = {c.name: c for c in CASES}

BATCHES_QUICK = [(), (2,), (1,), (2, 3)]
SIZES_QUICK = [1, 2, 4, 6]
DTYPES = [torch.float32, torch.float64]


def instances(tier="quick", dtypes=None, batches=None, sizes=None, names=None, seed=0, psd=None, square=None):
    """yield (label, case, op, dense) for the bounded family"""
    batches = batches or (BATCHES_QUICK if tier == "quick" else BATCHES_QUICK + [(1, 2), (3, 1, 2)])
    sizes = sizes or (SIZES_QUICK if tier == "quick" else [1, 2, 3, 4, 6, 9])
    dtypes = dtypes or DTYPES
    for c in CASES:
        if names is not None and c.name not in names:
            continue
        if psd is not None and c.psd != psd:
            continue
        if square is not None and c.square != square:
            continue
        for dt, batch, n in itertools.product(dtypes, batches, sizes):
            if c.name == "cat_batch" and not batch:
                continue
            if c.name == "tperm" and (batch or n > 3):
                continue
            if c.name == "perm" and dt != torch.float32:
                continue
            if c.name == "tperm" and dt != torch.float32:
                continue
            s = zlib.crc32(repr((c.name, str(dt), batch, n, seed)).encode()) % (2**31)
            try:
                op, dense = c.build(gen(s), dt, batch, n)
            except Exception as e:
                yield (f"{c.name}|{str(dt)[6:]}|b={batch}|n={n}", c, None, e)
                continue
            yield (f"{c.name}|{str(dt)[6:]}|b={batch}|n={n}", c, op, dense)


def tol(dt, scale=1.0):
    return (2e-4 if dt == torch.float32 else 1e-9) * scale


def close(a, b, dt=None, scale=1.0):
    dt = dt or a.dtype
    if a.shape != b.shape:
        return False
    if a.numel() == 0:
        return True
    ref = max(1.0, float(b.abs().max()))
    return bool(((a.to(torch.float64) - b.to(torch.float64)).abs().max() <= tol(dt, scale) * ref))
