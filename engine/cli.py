"""CLI of every check.  exit 0 = held on everything explored (KNOWN-FINDING lines allowed),
1 = violation (one VIOLATION line each), 2 = undecided (no violation found, something not decided),
3 = checker crash / vacuous run."""
import argparse
import importlib
import json
import os
import sys
import time
import traceback

from . import common


def main():
    ap = argparse.ArgumentParser()
    ap.add_argument("pid")
    ap.add_argument("--tier", default=os.environ.get("VERIF_TIER") or "quick", choices=["quick", "thorough"])
    ap.add_argument("--replay")
    ap.add_argument("--only", help="substring filter on unit names (dev)")
    ap.add_argument("--list", action="store_true")
    a = ap.parse_args()
    t0 = time.time()
    mods = {}
    for kind, name in (("main", f"contracts.{a.pid}"), ("shadow", f"contracts.sh_{a.pid}"), ("rtc", f"contracts.rtc_{a.pid}")):
        try:
            mods[kind] = importlib.import_module(name)
        except ModuleNotFoundError as e:
            if e.name != name and not (kind == "main" and str(e.name).startswith("contracts.")):
                raise
    if not mods:
        print(f"no check for {a.pid}", file=sys.stderr)
        return 3
    if a.replay:
        payload = json.load(open(a.replay))
        rec = payload.get("replay")
        if not rec:
            print(f"replay file names obligation {payload.get('obligation')} and carries the solver output; no native recipe")
            print(json.dumps({k: payload.get(k) for k in ("obligation", "solver_model", "solver_output")}, indent=1)[:4000])
            return 1
        res = common.run_replay_recipe(rec)
        print(json.dumps(res, indent=1, default=str))
        if res.get("reproduced"):
            print(f"VIOLATION property={a.pid} replay={a.replay} obligation={payload.get('obligation')}")
            return 1
        return 0
    try:
        units, seen = [], set()
        for kind, fn in (("shadow", "shadow_units"), ("main", "units"), ("rtc", "rtc_units")):
            m = mods.get(kind)
            if m is None or not hasattr(m, fn):
                continue
            for u in getattr(m, fn)(a.tier):
                if a.tier in u.tiers and u.name not in seen:
                    seen.add(u.name)
                    units.append(u)
        if a.only:
            units = [u for u in units if a.only in u.name]
        if a.list:
            for u in units:
                print(u.name, u.engine)
            return 0
        if not units:
            print("no units", file=sys.stderr)
            return 3
        results = common.run_units(units)
        # second chance for units the SOLVER BUDGET left undecided or whose worker process died (a timeout / a lost worker on a fully
        # loaded machine, never a wrong answer):
        # re-run those units alone, two at a time, with a tripled solver / wall-clock budget; their new results replace the old ones
        retry = [u for u in units if u.engine != "rtc" and (results.get(u.name, {}).get("kind") in ("timeout", "crash") or any(
            o.get("status") == "unknown" and ("cancel" in str(o.get("reason")) or "timeout" in str(o.get("reason"))) for o in results.get(u.name, {}).get("obligations", [])))]
        if retry and len(retry) <= 8:
            os.environ["VERIF_TIMEOUT_SCALE"] = "3"
            for u in retry:
                u.timeout_s = int(u.timeout_s * 2)
            again = common.run_units(retry, jobs=2)
            os.environ.pop("VERIF_TIMEOUT_SCALE", None)
            for u in retry:
                if again.get(u.name, {}).get("kind") == "ok" or results.get(u.name, {}).get("kind") != "ok":
                    results[u.name] = again[u.name]
        verdict = common.decide(a.pid, a.tier, results, units)
        meta = {"trusted_base": [], "assumptions": [], "functions_under_contract": [], "explanation": ""}
        for kind, attr in (("shadow", "SH_META"), ("main", "META"), ("rtc", "RTC_META")):
            mm = getattr(mods.get(kind), attr, None) if mods.get(kind) else None
            if not mm:
                continue
            for k in ("trusted_base", "assumptions", "functions_under_contract"):
                for x in mm.get(k, []):
                    if x not in meta[k]:
                        meta[k].append(x)
            if mm.get("explanation"):
                meta["explanation"] += f"[{kind}] {mm['explanation']} "
            if mm.get("families"):
                meta["explanation"] += f"[{kind} families] {mm['families']} "
            for k in ("rule", "level_if_complete"):
                if k in mm and (k not in meta or kind == "shadow"):
                    meta[k] = mm[k]
        # the level recorded in the evidence is the category claimed in MANIFEST.json for this property
        try:
            man = json.load(open(os.path.join(common.VERIF, "MANIFEST.json")))
            cat = {c["property_id"]: c["level_claimed"]["category"] for c in man.get("checks", [])}.get(a.pid, "other")
        except Exception:
            cat = "other"
        meta["level_if_complete"] = cat
        extra = {
            "trusted_base": meta.get("trusted_base", []),
            "assumptions": meta.get("assumptions", []),
            "explanation": meta.get("explanation", ""),
            "coverage_extra": {
                "functions_under_contract": meta.get("functions_under_contract", []),
                "units": len(units),
                "unit_failures": verdict.unit_failures,
                "repo": common.REPO,
            },
        }
        if "rule" in meta:
            extra["rule"] = meta["rule"]
        if a.only:
            extra["coverage_extra"]["filtered"] = a.only
        return common.report(verdict, extra, time.time() - t0, level_if_complete=meta.get("level_if_complete", "proof"))
    except Exception:
        traceback.print_exc()
        return 3


if __name__ == "__main__":
    sys.exit(main())
