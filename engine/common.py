"""Plumbing shared by all checks: units, parallel runner with hard timeouts, verdicts,
known findings, replay files and evidence."""
from __future__ import annotations

import fnmatch
import importlib
import json
import multiprocessing as mp
import os
import re
import sys
import time
import traceback
from dataclasses import dataclass, field
from typing import Any, Callable, Dict, List, Optional

VERIF = os.path.dirname(os.path.dirname(os.path.abspath(__file__)))
REPO = os.environ.get("VERIF_REPO", "/repo")
SEED = int(os.environ.get("VERIF_SEED", "0") or 0)
# evidence / replays of runs against a scratch tree (VERIF_REPO set by the developer for mutation testing) must not
# overwrite the records of /repo itself
OUT = VERIF if os.path.abspath(REPO) == "/repo" and not os.environ.get("VERIF_SCRATCH_OUT") else os.path.join(VERIF, ".scratch")

# obligation status values
DISCHARGED = "discharged"  # solver: unsat (proved for all values of the signature)
REFUTED = "refuted"  # solver: sat (counter-model) / bounded check: failing input
UNKNOWN = "unknown"  # solver gave up / engine could not model -> undecided, never a violation
BOUNDED_PASS = "bounded-pass"  # run-time contract held on every enumerated input
BOUNDED_FAIL = "bounded-fail"  # run-time contract violated on a concrete input (already native)


@dataclass
class Unit:
    """One independently runnable piece of a check (one contract x signature family)."""

    name: str
    module: str  # import path of the module holding ``func``
    func: str
    args: tuple = ()
    engine: str = "shadow"  # shadow | loopcut | audit | rtc | spec
    timeout_s: int = 300
    tiers: tuple = ("quick", "thorough")


def conformance_unit(pid: str) -> "Unit":
    """validation of the symtorch kernel models against real torch (run with every shadow check)"""
    return Unit(f"{pid}/conformance(symtorch vs torch)", "engine.conformance", "run", (SEED,), engine="spec", timeout_s=600)


def ob(name, status, engine="shadow", **kw) -> dict:
    d = {"name": name, "status": status, "engine": engine}
    d.update(kw)
    return d


# ------------------------------------------------------------------------------------------
# parallel runner (one OS process per unit, hard wall-clock kill)


def _child(unit: Unit, conn):
    t0 = time.time()
    try:
        sys.setrecursionlimit(10000)
        mod = importlib.import_module(unit.module)
        res = getattr(mod, unit.func)(*unit.args)
        if isinstance(res, list):
            res = {"obligations": res}
        res.setdefault("obligations", [])
        res["wall_s"] = time.time() - t0
        conn.send(("ok", res))
    except BaseException as e:  # noqa
        conn.send(("crash", {"error": repr(e), "trace": traceback.format_exc()[-4000:], "wall_s": time.time() - t0}))
    finally:
        conn.close()


def run_units(units: List[Unit], jobs: Optional[int] = None, progress: bool = True) -> Dict[str, dict]:
    jobs = jobs or int(os.environ.get("VERIF_JOBS", "0") or 0) or min(16, os.cpu_count() or 4)
    ctxmp = mp.get_context("fork")
    pending = list(units)
    running: list = []
    results: Dict[str, dict] = {}
    while pending or running:
        while pending and len(running) < jobs:
            u = pending.pop(0)
            parent, child = ctxmp.Pipe(duplex=False)
            p = ctxmp.Process(target=_child, args=(u, child), daemon=True)
            p.start()
            child.close()
            running.append((u, p, parent, time.time()))
        time.sleep(0.02)
        still = []
        for u, p, conn, t0 in running:
            done = False
            if conn.poll():
                try:
                    kind, res = conn.recv()
                except EOFError:
                    kind, res = "crash", {"error": "EOF from worker", "wall_s": time.time() - t0}
                results[u.name] = {"kind": kind, **res}
                done = True
            elif not p.is_alive():
                # died without a message
                if conn.poll():
                    continue
                results[u.name] = {"kind": "crash", "error": f"worker exit code {p.exitcode}", "wall_s": time.time() - t0}
                done = True
            elif time.time() - t0 > u.timeout_s:
                p.kill()
                results[u.name] = {"kind": "timeout", "error": f"unit exceeded {u.timeout_s}s", "wall_s": time.time() - t0}
                done = True
            if done:
                p.join(timeout=5)
                conn.close()
                if progress and os.environ.get("VERIF_VERBOSE"):
                    r = results[u.name]
                    print(f"  [unit] {u.name}: {r['kind']} {r.get('wall_s', 0):.1f}s obs={len(r.get('obligations', []))}", file=sys.stderr)
            else:
                still.append((u, p, conn, t0))
        running = still
    return results


# ------------------------------------------------------------------------------------------
# known findings


def load_findings() -> dict:
    """known_findings.json plus the per-property files contracts/notes/<ID>_known.json (all committed, never
    written at run time)"""
    import glob

    p = os.path.join(VERIF, "known_findings.json")
    out = json.load(open(p)) if os.path.exists(p) else {"known": [], "fixed": []}
    for f in sorted(glob.glob(os.path.join(VERIF, "contracts", "notes", "*_known.json"))):
        try:
            out["known"] += json.load(open(f))
        except Exception as e:  # a malformed file must not silently suppress anything
            print(f"warning: cannot read {f}: {e!r}", file=sys.stderr)
    return out


def match_finding(findings: dict, pid: str, obname: str, failures=None) -> Optional[dict]:
    """A known finding matches an obligation by name pattern AND (when it lists one) by the concrete
    failing inputs: every failing input label must match ``input_regex`` — a different failing input
    of the same obligation is still reported as a violation."""
    for f in findings.get("known", []):
        if f["property"] == pid and any(fnmatch.fnmatchcase(obname, pat) for pat in f["obligations"]):
            rx = f.get("input_regex")
            if rx and failures:
                if not all(re.search(rx, str(x)) for x in failures):
                    continue
            return f
    return None


# ------------------------------------------------------------------------------------------
# replay files


def _san(s: str) -> str:
    return re.sub(r"[^A-Za-z0-9_.+-]+", "_", s)[:150]


def write_replay(pid: str, obl: dict) -> str:
    d = os.path.join(OUT, "replays", pid)
    os.makedirs(d, exist_ok=True)
    path = os.path.join(d, _san(obl["name"]) + ".json")
    payload = {
        "property": pid,
        "obligation": obl["name"],
        "status": obl["status"],
        "engine": obl.get("engine"),
        "solver_model": obl.get("model"),
        "solver_output": obl.get("reason") or obl.get("detail"),
        "smt2": (obl.get("smt2") or "")[:20000] or None,
        "replay": obl.get("replay"),  # {"module":..., "func":..., "args":...} native reproduction recipe
        "native": obl.get("native"),  # result of the native replay done by the check
    }
    with open(path, "w") as f:
        json.dump(payload, f, indent=1, default=str)
    return os.path.relpath(path, VERIF)


def run_replay_recipe(recipe: dict) -> dict:
    """Run a native reproduction recipe against the real code under real torch.
    The recipe function returns {"reproduced": bool, "detail": str}."""
    mod = importlib.import_module(recipe["module"])
    fn = getattr(mod, recipe["func"])
    try:
        return fn(*recipe.get("args", []), **recipe.get("kwargs", {}))
    except Exception as e:  # the recipe itself failed: not a reproduction
        return {"reproduced": False, "detail": f"replay recipe crashed: {e!r}"}


# ------------------------------------------------------------------------------------------
# verdict + evidence


@dataclass
class Verdict:
    pid: str
    tier: str
    obligations: List[dict] = field(default_factory=list)
    unit_failures: List[dict] = field(default_factory=list)
    violations: List[dict] = field(default_factory=list)
    known: List[dict] = field(default_factory=list)
    undecided: List[dict] = field(default_factory=list)


def decide(pid: str, tier: str, unit_results: Dict[str, dict], units: List[Unit]) -> Verdict:
    v = Verdict(pid, tier)
    findings = load_findings()
    byname = {u.name: u for u in units}
    for uname, r in unit_results.items():
        if r["kind"] != "ok":
            v.unit_failures.append({"unit": uname, **{k: r.get(k) for k in ("kind", "error", "trace", "wall_s")}})
            # a crashed / timed-out unit is UNDECIDED (exit code 2 unless it is the driver itself)
            v.undecided.append(ob(f"{uname}/<unit {r['kind']}>", UNKNOWN, engine=byname[uname].engine, reason=r.get("error")))
            continue
        for o in r["obligations"]:
            o.setdefault("engine", byname[uname].engine)
            o["unit"] = uname
            v.obligations.append(o)
            st = o["status"]
            if st in (DISCHARGED, BOUNDED_PASS):
                continue
            if st == UNKNOWN:
                # undecided by the solver: never a violation by itself.  If the contract supplies a native
                # reproduction recipe (bounded search on the real code) and it finds a failing input, the
                # obligation is refuted by that input; otherwise it stays undecided.
                if o.get("replay") and "native" not in o:
                    o["native"] = run_replay_recipe(o["replay"])
                if (o.get("native") or {}).get("reproduced"):
                    o["status"] = st = REFUTED
                    o["by"] = "native replay after solver unknown"
                else:
                    v.undecided.append(o)
                    continue
            # refuted / bounded-fail
            if st == REFUTED and o.get("replay") and "native" not in o:
                o["native"] = run_replay_recipe(o["replay"])
            kf = match_finding(findings, pid, o["name"], o.get("failures"))
            if kf is not None:
                v.known.append({"finding": kf, "obligation": o})
            else:
                v.violations.append(o)
    return v


def report(v: Verdict, evidence_extra: dict, wall_s: float, level_if_complete: str = "proof") -> int:
    """Print lines, write replay + evidence files, return the exit code."""
    seen_known = set()
    for k in v.known:
        key = k["finding"]["id"]
        if key in seen_known:
            continue
        seen_known.add(key)
        print(f"KNOWN-FINDING: property={v.pid} {k['finding']['what']}")
    for n_v, o in enumerate(v.violations):
        if n_v >= 40:
            print(f"... and {len(v.violations) - 40} more violated obligations (see evidence/replays)")
            break
        path = write_replay(v.pid, o)
        nat = o.get("native") or {}
        reproduced = o["status"] == BOUNDED_FAIL or nat.get("reproduced")
        tail = "" if reproduced else " no-failing-input-found"
        print(f"VIOLATION property={v.pid} replay={path} obligation={o['name']}{tail}")
    for o in v.undecided:
        print(f"UNDECIDED property={v.pid} obligation={o['name']} reason={str(o.get('reason'))[:200]}", file=sys.stderr)

    proved = [o for o in v.obligations if o["engine"] != "rtc" and o["engine"] != "spec"]
    n_ob = len(proved)
    n_dis = sum(1 for o in proved if o["status"] == DISCHARGED)
    bounded = [o for o in v.obligations if o["engine"] == "rtc"]
    evals = sum(int(o.get("evaluations", 0)) for o in bounded)
    distinct = sum(int(o.get("distinct_nontrivial", 0)) for o in bounded)
    by_backend: Dict[str, int] = {}
    solver_s = 0.0
    for o in proved:
        if o["status"] == DISCHARGED:
            by_backend[o.get("by", "z3")] = by_backend.get(o.get("by", "z3"), 0) + 1
        solver_s += float(o.get("solver_s", 0.0))
    complete = n_ob > 0 and n_dis == n_ob and not v.undecided and not v.violations
    level = level_if_complete if complete else "other"
    samples = []
    for o in proved[:3] + proved[-2:] + bounded[:2]:
        samples.append({k: o.get(k) for k in ("name", "status", "engine", "by", "info", "sample") if o.get(k) is not None})
    cov = {
        "obligations": n_ob,
        "discharged": n_dis,
        "checker_cmd": evidence_extra.pop("checker_cmd", f"./check {v.pid} --tier {v.tier}"),
        "trusted_base": evidence_extra.pop("trusted_base", []),
        "discharged_by_backend": by_backend,
        "solver_s": round(solver_s, 3),
        "undecided": [o["name"] for o in v.undecided],
        "known_findings": sorted(seen_known),
        "bounded_obligations": len(bounded),
        "bounded_pass": sum(1 for o in bounded if o["status"] == BOUNDED_PASS),
        "evaluations": max(evals, n_ob),
        "distinct_nontrivial": max(distinct, len({o["name"] for o in v.obligations})),
        "rule": evidence_extra.pop(
            "rule",
            "proved tier: one obligation = one contract clause on one explored path of one real function for one "
            "signature (distinct by name); bounded tier: evaluations = run-time contract evaluations on concrete inputs, "
            "distinct_nontrivial = distinct (class, shape-signature, operation) cases with a non-degenerate input",
        ),
        "samples": samples or [{"note": "no obligations"}],
        "explanation": evidence_extra.pop("explanation", ""),
    }
    cov.update(evidence_extra.pop("coverage_extra", {}))
    ev = {
        "property_id": v.pid,
        "tier": v.tier,
        "seed": SEED,
        "level": level,
        "coverage": cov,
        "assumptions": evidence_extra.pop("assumptions", []),
        "wall_s": round(wall_s, 2),
        "violations": len(v.violations),
    }
    ev.update(evidence_extra)
    os.makedirs(os.path.join(OUT, "evidence"), exist_ok=True)
    with open(os.path.join(OUT, "evidence", f"{v.pid}.json"), "w") as f:
        json.dump(ev, f, indent=1, default=str)
    print(
        f"{v.pid} [{v.tier}] obligations={n_ob} discharged={n_dis} bounded={len(bounded)} "
        f"bounded_evals={evals} known={len(seen_known)} undecided={len(v.undecided)} "
        f"violations={len(v.violations)} wall={wall_s:.1f}s level={level}"
    )
    if v.violations:
        return 1
    if n_ob + len(bounded) == 0:
        print("no obligations generated: vacuous run", file=sys.stderr)
        return 3
    if v.undecided:
        return 2
    return 0
