"""Conformance of the symtorch kernel models with real torch (DESIGN §3.4a): each model is evaluated on
concrete shapes/values (SymTensors whose entry functions are table lookups) and compared with real
torch: shape, dtype class, values, aliasing (view vs. copy) and raise/no-raise.  Run on every check run
that uses the shadow engine (unit "conformance"); a disagreement makes the engine untrustworthy -> the
check reports UNDECIDED (exit 2), never a pass."""
from __future__ import annotations

import itertools
import random

import z3

from . import sym, symops as O, symtensor as T
from . import symtorch as ST  # noqa: F401  (attaches the tensor methods)
from .symtensor import SymTensor


def _dt(torch, t):
    return {torch.float32: T.float32, torch.float64: T.float64, torch.int64: T.int64, torch.int32: T.int32, torch.bool: T.bool_}[t.dtype]


def lift(torch, t):
    """real tensor -> SymTensor with concrete entries"""
    dt = _dt(torch, t)
    data = t.clone()

    def val(v):
        if dt.kind == "f":
            return z3.RealVal(repr(float(v)))
        if dt.kind == "i":
            return z3.IntVal(int(v))
        return z3.BoolVal(bool(v))

    positions = list(itertools.product(*[range(n) for n in data.shape]))

    def elem(idx):
        idx = [z3.simplify(O.ix(i)) for i in idx]
        if all(z3.is_int_value(i) for i in idx):
            pos = tuple(i.as_long() for i in idx)
            if any(p < 0 or p >= n for p, n in zip(pos, data.shape)):
                return val(0)  # unselected If-branches of the models read out of range: any total value will do
            return val(data[pos].item() if pos else data.item())
        r = val(0)
        for pos in reversed(positions):  # symbolic index (inside a sum): table as an If-chain
            r = z3.If(z3.And(*[i == p for i, p in zip(idx, pos)]) if pos else z3.BoolVal(True), val(data[pos].item() if pos else data.item()), r)
        return r
    return SymTensor.from_elem(tuple(t.shape), dt, elem, owner="caller:x")


def lower(torch, s: SymTensor):
    """SymTensor with concrete entries -> real tensor (float64 / int64 / bool)"""
    shape = tuple(sym.concrete(d) if not isinstance(d, int) else d for d in s.shape)
    kind = s.dtype.kind
    out = torch.zeros(shape, dtype={"f": torch.float64, "i": torch.int64, "b": torch.bool}[kind])
    for pos in itertools.product(*[range(d) for d in shape]):
        v = z3.simplify(s.at(*[z3.IntVal(p) for p in pos]))
        if kind == "f":
            if z3.is_rational_value(v):
                val = float(v.numerator_as_long()) / float(v.denominator_as_long())
            elif z3.is_int_value(v):
                val = float(v.as_long())
            else:
                val = float(v.approx(20).as_decimal(20).rstrip("?")) if z3.is_algebraic_value(v) else float("nan")
        elif kind == "i":
            val = v.as_long()
        else:
            val = z3.is_true(v)
        if pos:
            out[pos] = val
        else:
            out.fill_(val)
    return out


def cases(torch, rng):
    """(name, model_fn(sym tensors...), torch_fn(real tensors...), [real args])"""
    g = torch.Generator().manual_seed(rng.randrange(1 << 30))

    def r(*shape, dtype=torch.float64):
        return (torch.randn(*shape, generator=g, dtype=torch.float64) * 2).round().to(dtype) / 2 if dtype.is_floating_point else torch.randint(-3, 4, shape, generator=g)

    def ri(hi, *shape):
        return torch.randint(0, hi, shape, generator=g)

    A, B, v = r(2, 3, 4), r(3, 4), r(4)
    C = r(2, 1, 4)
    I3 = ri(3, 5)
    out = [
        ("add_bcast", lambda a, b: a + b, lambda a, b: a + b, [A, B]),
        ("add_bcast1", lambda a, b: a + b, lambda a, b: a + b, [A, C]),
        ("sub_scalar", lambda a: a - 1.5, lambda a: a - 1.5, [A]),
        ("rsub_scalar", lambda a: 2 - a, lambda a: 2 - a, [A]),
        ("mul", lambda a, b: a * b, lambda a, b: a * b, [A, v]),
        ("div", lambda a, b: a / (b * b + 1), lambda a, b: a / (b * b + 1), [A, v]),
        ("neg", lambda a: -a, lambda a: -a, [A]),
        ("abs", lambda a: a.abs(), lambda a: a.abs(), [A]),
        ("sign", lambda a: a.sign(), lambda a: a.sign(), [A]),
        ("int_floordiv", lambda a: ST.div(a, 3, rounding_mode="floor"), lambda a: torch.div(a, 3, rounding_mode="floor"), [ri(20, 6) - 10]),
        ("int_fmod", lambda a: a.fmod(3), lambda a: a.fmod(3), [ri(20, 6) - 10]),
        ("int_mod", lambda a: a % 3, lambda a: a % 3, [ri(20, 6) - 10]),
        ("int_floordiv_op", lambda a: a // 3, lambda a: a // 3, [ri(20, 6) - 10]),
        ("eq", lambda a, b: a == b, lambda a, b: a == b, [ri(3, 2, 3), ri(3, 3)]),
        ("lt", lambda a, b: a < b, lambda a, b: a < b, [A, B]),
        ("where", lambda c, a, b: ST.where(c, a, b), lambda c, a, b: torch.where(c, a, b), [A > 0, A, B]),
        ("clamp_min", lambda a: a.clamp_min(0.25), lambda a: a.clamp_min(0.25), [A]),
        ("unsqueeze", lambda a: a.unsqueeze(-2), lambda a: a.unsqueeze(-2), [A]),
        ("squeeze_all", lambda a: a.squeeze(), lambda a: a.squeeze(), [C]),
        ("squeeze_dim", lambda a: a.squeeze(1), lambda a: a.squeeze(1), [C]),
        ("squeeze_dim_noop", lambda a: a.squeeze(0), lambda a: a.squeeze(0), [C]),
        ("transpose", lambda a: a.transpose(-1, -2), lambda a: a.transpose(-1, -2), [A]),
        ("mT", lambda a: a.mT, lambda a: a.mT, [A]),
        ("permute", lambda a: a.permute(2, 0, 1), lambda a: a.permute(2, 0, 1), [A]),
        ("expand", lambda a: a.expand(2, 3, 4), lambda a: a.expand(2, 3, 4), [C]),
        ("expand_new_dim", lambda a: a.expand(5, 2, 3, 4), lambda a: a.expand(5, 2, 3, 4), [C]),
        ("expand_-1", lambda a: a.expand(-1, 3, -1), lambda a: a.expand(-1, 3, -1), [C]),
        ("diagonal", lambda a: a.diagonal(dim1=-1, dim2=-2), lambda a: a.diagonal(dim1=-1, dim2=-2), [r(2, 3, 3)]),
        ("diagonal_rect", lambda a: a.diagonal(dim1=-2, dim2=-1), lambda a: a.diagonal(dim1=-2, dim2=-1), [A]),
        ("diag_embed", lambda a: ST.diag_embed(a), lambda a: torch.diag_embed(a), [B]),
        ("reshape_merge", lambda a: a.reshape(6, 4), lambda a: a.reshape(6, 4), [A]),
        ("reshape_split", lambda a: a.reshape(2, 3, 2, 2), lambda a: a.reshape(2, 3, 2, 2), [A]),
        ("reshape_-1", lambda a: a.reshape(-1, 2), lambda a: a.reshape(-1, 2), [A]),
        ("reshape_noncontig", lambda a: a.mT.reshape(2, 12), lambda a: a.mT.reshape(2, 12), [A]),
        ("view_singletons", lambda a: a.view(1, 3, 1, 4), lambda a: a.view(1, 3, 1, 4), [B]),
        ("flatten", lambda a: a.flatten(0, 1), lambda a: a.flatten(0, 1), [A]),
        ("narrow", lambda a: a.narrow(-1, 1, 2), lambda a: a.narrow(-1, 1, 2), [A]),
        ("select", lambda a: a.select(1, -1), lambda a: a.select(1, -1), [A]),
        ("getitem_int_slice", lambda a: a[1, 0:2, ::2], lambda a: a[1, 0:2, ::2], [A]),
        ("getitem_neg", lambda a: a[-1, -2:, -3:-1], lambda a: a[-1, -2:, -3:-1], [A]),
        ("getitem_ellipsis", lambda a: a[..., 1], lambda a: a[..., 1], [A]),
        ("getitem_none", lambda a: a[:, None, 1], lambda a: a[:, None, 1], [A]),
        ("getitem_overlong", lambda a: a[:, 1:99, -99:2], lambda a: a[:, 1:99, -99:2], [A]),
        ("adv_one", lambda a, i: a[:, i], lambda a, i: a[:, i], [A, I3]),
        ("adv_adjacent", lambda a, i, j: a[:, i, j], lambda a, i, j: a[:, i, j], [A, ri(3, 5), ri(4, 5)]),
        ("adv_separated", lambda a, i, j: a[i, :, j], lambda a, i, j: a[i, :, j], [A, ri(2, 5), ri(4, 5)]),
        ("adv_bcast", lambda a, i, j: a[:, i, j], lambda a, i, j: a[:, i, j], [A, ri(3, 2, 1), ri(4, 1, 3)]),
        ("adv_neg_entries", lambda a, i: a[:, i], lambda a, i: a[:, i], [A, torch.tensor([-1, -3, 0, 2])]),
        ("adv_int_tensor", lambda a, i: a[1, i], lambda a, i: a[1, i], [A, I3]),
        ("adv_tensor_int_tensor", lambda a, i, j: a[i, 1, j], lambda a, i, j: a[i, 1, j], [A, ri(2, 5), ri(4, 5)]),
        ("cat", lambda a, b: O.cat([a, b], -2), lambda a, b: torch.cat([a, b], -2), [A, r(2, 2, 4)]),
        ("cat3", lambda a, b, c: O.cat([a, b, c], 0), lambda a, b, c: torch.cat([a, b, c], 0), [B, r(1, 4), r(2, 4)]),
        ("stack", lambda a, b: O.stack([a, b], -1), lambda a, b: torch.stack([a, b], -1), [B, r(3, 4)]),
        ("sum_dim", lambda a: a.sum(-2), lambda a: a.sum(-2), [A]),
        ("sum_all", lambda a: a.sum(), lambda a: a.sum(), [B]),
        ("sum_keepdim", lambda a: a.sum(dim=(0, 2), keepdim=True), lambda a: a.sum(dim=(0, 2), keepdim=True), [A]),
        ("matmul_mm", lambda a, b: a @ b, lambda a, b: a @ b, [B, r(4, 2)]),
        ("matmul_bmm_bcast", lambda a, b: a @ b, lambda a, b: a @ b, [A, r(4, 2)]),
        ("matmul_mv", lambda a, b: a @ b, lambda a, b: a @ b, [A, v]),
        ("matmul_vm", lambda a, b: a @ b, lambda a, b: a @ b, [r(3), B]),
        ("matmul_vv", lambda a, b: a @ b, lambda a, b: a @ b, [v, r(4)]),
        ("eye", lambda: O.eye(3, 4, dtype=T.float64), lambda: torch.eye(3, 4, dtype=torch.float64), []),
        ("arange", lambda: O.arange(2, 7), lambda: torch.arange(2, 7), []),
        ("arange_step", lambda: O.arange(1, 8, 3), lambda: torch.arange(1, 8, 3), []),
        ("tril", lambda a: ST.tril(a), lambda a: torch.tril(a), [A]),
        ("triu", lambda a: ST.triu(a), lambda a: torch.triu(a), [A]),
        ("flip", lambda a: ST.flip(a, (-1,)), lambda a: torch.flip(a, (-1,)), [A]),
        ("repeat", lambda a: a.repeat(2, 1, 3), lambda a: a.repeat(2, 1, 3), [B]),
        ("gather", lambda a, i: a.gather(-1, i), lambda a, i: a.gather(-1, i), [B, ri(4, 3, 2)]),
        ("masked_fill", lambda a: a.masked_fill(a > 0, 7.0), lambda a: a.masked_fill(a > 0, 7.0), [A]),
        ("addcmul", lambda a, b, c: ST.addcmul(a, b, c), lambda a, b, c: torch.addcmul(a, b, c), [A, B, v]),
        ("type_as_bool", lambda a, b: (a > 0).type_as(b), lambda a, b: (a > 0).type_as(b), [A, B]),
        ("pow2", lambda a: a ** 2, lambda a: a ** 2, [A]),
        ("index_select", lambda a, i: a.index_select(1, i), lambda a, i: a.index_select(1, i), [A, I3]),
        ("unbind", lambda a: O.stack(list(a.unbind(1)), 0), lambda a: torch.stack(list(a.unbind(1)), 0), [A]),
        ("mean", lambda a: a.mean(-1), lambda a: a.mean(-1), [A]),
    ]
    # in-place through views (aliasing semantics)
    def m_inplace_diag(a):
        b = a.clone()
        b.diagonal(dim1=-1, dim2=-2).add_(1.5)
        return b

    def m_inplace_slice(a):
        b = a.clone()
        b[:, 1:, ::2].mul_(2.0)
        return b

    def m_inplace_view_of_view(a):
        b = a.clone()
        c = b.transpose(0, 2)[1]
        c.sub_(1.0)
        return b

    def m_setitem(a):
        b = a.clone()
        b[0, :, 1] = 5.0
        return b

    def m_copy_(a, s):
        b = a.clone()
        b[1].copy_(s)
        return b

    out += [
        ("inplace_diag_view", m_inplace_diag, m_inplace_diag, [r(2, 3, 3)]),
        ("inplace_slice_view", m_inplace_slice, m_inplace_slice, [A]),
        ("inplace_view_of_view", m_inplace_view_of_view, m_inplace_view_of_view, [A]),
        ("setitem", m_setitem, m_setitem, [A]),
        ("copy_", m_copy_, m_copy_, [A, B]),
    ]
    # expected exceptions (both must raise)
    out += [
        ("ERR_add_shape", lambda a, b: a + b, lambda a, b: a + b, [A, r(2, 4)]),
        ("ERR_matmul_inner", lambda a, b: a @ b, lambda a, b: a @ b, [A, r(3, 2)]),
        ("ERR_matmul_batch", lambda a, b: a @ b, lambda a, b: a @ b, [A, r(3, 4, 2)]),
        ("ERR_expand", lambda a: a.expand(2, 3, 5), lambda a: a.expand(2, 3, 5), [C]),
        ("ERR_index_oob", lambda a: a[:, 3], lambda a: a[:, 3], [A]),
        ("ERR_index_neg_oob", lambda a: a[-3], lambda a: a[-3], [A]),
        ("ERR_adv_oob", lambda a, i: a[:, i], lambda a, i: a[:, i], [A, torch.tensor([0, 3])]),
        ("ERR_reshape_numel", lambda a: a.reshape(5, 5), lambda a: a.reshape(5, 5), [A]),
        ("ERR_cat", lambda a, b: O.cat([a, b], 0), lambda a, b: torch.cat([a, b], 0), [A, B]),
        ("ERR_narrow", lambda a: a.narrow(0, 1, 2), lambda a: a.narrow(0, 1, 2), [A]),
        ("ERR_inplace_bcast", lambda a, b: a.clone().add_(b), lambda a, b: a.clone().add_(b), [B, A]),
    ]
    return out


def run(seed=0, rounds=2):
    import torch

    from .common import DISCHARGED, UNKNOWN as REFUTED, ob  # a model/torch disagreement makes the run UNDECIDED, never a violation

    rng = random.Random(seed)
    res = []
    for rd in range(rounds):
        for name, mf, tf, args in cases(torch, rng):
            oname = f"conformance/{name}"
            def _thunk():
                try:
                    exp, ee = tf(*[a.clone() for a in args]), None
                except Exception as e:  # noqa
                    exp, ee = None, e
                try:
                    got, ge = mf(*[lift(torch, a) for a in args]), None
                except sym.Unsupported:
                    raise
                except Exception as e:  # noqa
                    got, ge = None, e
                return exp, ee, got, ge
            paths = sym.explore(_thunk, max_paths=8)
            ok, detail = True, ""
            if len(paths) != 1 or paths[0].outcome != "return":
                ok, detail = False, f"model forked or failed on concrete input: {[(p.outcome, repr(p.value)[:200]) for p in paths]}"
            else:
                exp, ee, got, ge = paths[0].value
                if (ee is None) != (ge is None):
                    ok, detail = False, f"torch: {ee!r}  model: {ge!r}"
                elif ee is None:
                    global _CTXHOLD
                    sym._CTX = sym.Context([])
                    try:
                        low = lower(torch, got)
                    finally:
                        sym._CTX = None
                    if tuple(low.shape) != tuple(exp.shape):
                        ok, detail = False, f"shape {tuple(low.shape)} vs {tuple(exp.shape)}"
                    elif (exp.dtype.is_floating_point, exp.dtype == torch.bool) != (got.dtype.kind == "f", got.dtype.kind == "b"):
                        ok, detail = False, f"dtype kind {got.dtype} vs {exp.dtype}"
                    elif not torch.allclose(low.to(torch.float64), exp.to(torch.float64), atol=1e-9, rtol=1e-9):
                        ok, detail = False, f"values differ: max abs {float((low.to(torch.float64) - exp.to(torch.float64)).abs().max())}"
            if rd == 0 or not ok:
                res.append(ob(oname, DISCHARGED if ok else REFUTED, engine="spec", by="differential", detail=detail, reason=("symtorch model disagrees with real torch: " + detail) if not ok else None))
    merged = {}
    for o in res:
        if o["name"] not in merged or o["status"] != DISCHARGED:
            merged[o["name"]] = o
    return list(merged.values())
