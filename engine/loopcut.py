"""LOOPCUT — mechanical loop cutting of the real function at sidecar-supplied inductive invariants.

``cut(func, {ordinal: LoopSpec})`` re-parses the CURRENT source of ``func`` (inspect, i.e. the file in
/repo), rewrites each listed ``for``/``while`` loop (ordinal = position among the loops of the function
in source order) into the three standard obligations and compiles the result in a copy of the
function's own globals:

    establish   invariant holds on loop entry                         (obligation)
    preserve    havoc modified state, assume invariant (and guard), run the REAL body once,
                prove invariant for the next iteration; the path ends    (obligation)
    use         havoc, assume invariant and exit condition, continue after the loop

``break`` leaves the loop from an arbitrary iteration with the current state; ``return`` / ``raise``
end the path with the function's postcondition checked as usual.  The set of names/objects the body
may modify is computed from the AST and must be covered by the spec's ``modifies`` — otherwise the
contract is out of date and the result is ``Unsupported`` (never a pass)."""
from __future__ import annotations

import ast
import inspect
import textwrap
from typing import Dict

import z3

from . import sym
from .sym import Unsupported


class LoopCutEnd(sym.PathEnd):
    """end of a 'preserve' path"""


class LoopSpec:
    """Sidecar loop contract.  Subclass and override."""

    modifies: tuple = ()  # local names (re)bound or mutated in place by the body
    target: str = None  # loop variable of a for-range loop

    def invariant(self, env: dict, k) -> list:
        """[(name, z3 Bool)] — the invariant at the head of iteration k over the state in env"""
        raise NotImplementedError

    def assume(self, env: dict, k) -> None:
        """assume the invariant at the head of iteration k (default: assume the proof goals; override when
        the invariant is universally quantified: register the facts in ctx.universals instead)"""
        c = sym.ctx()
        for name, fact in self.invariant(env, k):
            c.assume(fact)

    def before_close(self, env: dict, k) -> None:
        """ghost update: switch the ghost witnesses to the ones for the next loop head"""

    def havoc(self, env: dict, k, mode: str) -> dict:
        """fresh values for the modified names (and in-place havoc of mutated objects) representing the
        state at the head of iteration k ('iter') or after the last iteration ('exit')"""
        raise NotImplementedError


def _modified_names(body):
    names = set()
    for node in body:
        for n in ast.walk(node):
            if isinstance(n, ast.Name) and isinstance(n.ctx, (ast.Store, ast.Del)):
                names.add(n.id)
            elif isinstance(n, (ast.Subscript, ast.Attribute)) and isinstance(n.ctx, ast.Store):
                r = n
                while isinstance(r, (ast.Subscript, ast.Attribute)):
                    r = r.value
                if isinstance(r, ast.Name):
                    names.add(r.id)
            elif isinstance(n, ast.Call):
                f = n.func
                if isinstance(f, ast.Attribute) and f.attr.endswith("_") and not f.attr.endswith("__"):
                    r = f.value
                    while isinstance(r, (ast.Subscript, ast.Attribute, ast.Call)):
                        r = r.func if isinstance(r, ast.Call) else r.value
                    if isinstance(r, ast.Name):
                        names.add(r.id)
                for kw in n.keywords:
                    if kw.arg == "out":
                        for m in ast.walk(kw.value):
                            if isinstance(m, ast.Name):
                                names.add(m.id)
    return names


class _Runtime:
    def __init__(self, specs: Dict[int, LoopSpec], fname: str):
        self.specs = specs
        self.fname = fname
        self.k = {}
        self.range = {}
        self.mark = {}

    def _range(self, it):
        from .shadow import SymRange

        if isinstance(it, SymRange):
            a = it.args
        elif isinstance(it, range):
            a = (it.start, it.stop, it.step)
        else:
            raise Unsupported(f"loopcut: for-loop over {type(it).__name__} (only range supported)")
        if len(a) == 1:
            return 0, a[0], 1
        if len(a) == 2:
            return a[0], a[1], 1
        return a

    def enter(self, ordinal, env, it=None):
        spec = self.specs[ordinal]
        c = sym.ctx()
        if it is not None:
            start, stop, step = self._range(it)
            if step != 1:
                raise Unsupported("loopcut: range step != 1")
            self.range[ordinal] = (start, stop)
            k0 = start
        else:
            k0 = 0
        for name, goal in spec.invariant(dict(env), k0):
            c.prove(f"{self.fname}/loop{ordinal}/establish/{name}", goal, kind="loop-establish")
        return c.fork(f"loop{ordinal}_iterates")

    def havoc(self, ordinal, mode, env):
        spec = self.specs[ordinal]
        c = sym.ctx()
        env = dict(env)
        if ordinal in self.range:
            start, stop = self.range[ordinal]
            if mode == "iter":
                k = sym.SymInt(z3.Int(c.fresh_name(f"k!loop{ordinal}")))
                c.assume(k >= start)
                c.assume(k < stop)
            else:
                # number of completed iterations = max(stop, start)
                k = sym.sym_max(stop, start)
        else:
            k = sym.SymInt(z3.Int(c.fresh_name(f"k!loop{ordinal}")))
            c.assume(k >= 0)
        self.k[ordinal] = k
        new = spec.havoc(env, k, mode)
        env.update(new)
        if spec.target and ordinal in self.range:
            if mode == "iter":
                new[spec.target] = k
                env[spec.target] = k
            else:
                start, stop = self.range[ordinal]
                if bool(sym.lift(sym.as_z3_int(stop) > sym.as_z3_int(start))):
                    new[spec.target] = stop - 1
                    env[spec.target] = stop - 1
                else:
                    new.pop(spec.target, None)
        spec.assume(env, k)
        if mode == "iter":
            from . import symtensor as _T

            allowed = {v.storage.id for v in new.values() if isinstance(v, _T.SymTensor)}
            allowed |= {st.id for st in getattr(spec, "havoced_storages", lambda: [])()}
            self.mark[ordinal] = (len(c.events), next(_T._ids), allowed)
        return new

    def frame_check(self, ordinal):
        """soundness of the cut: every storage written in place by the body (also through callees, which the AST scan of
        ``modifies`` cannot see) is one that was havoced at the loop head or was created inside the body"""
        c = sym.ctx()
        n0, watermark, allowed = self.mark[ordinal]
        bad = sorted({f"{e[1].get('label')}#{e[1]['storage']}({e[1].get('op')})" for e in c.events[n0:]
                      if e[0] == "inplace" and e[1]["storage"] < watermark and e[1]["storage"] not in allowed})
        if bad:
            raise Unsupported(f"contract-out-of-date: loop {ordinal} of {self.fname} writes in place to state the loop contract does not havoc: {bad[:6]}")

    def after_break(self, ordinal, env):
        self.frame_check(ordinal)
        hook = getattr(self.specs[ordinal], "on_break", None)
        if hook is not None:
            hook(dict(env))

    def close(self, ordinal, env):
        spec = self.specs[ordinal]
        c = sym.ctx()
        k = self.k[ordinal]
        self.frame_check(ordinal)
        spec.before_close(dict(env), k)
        for name, goal in spec.invariant(dict(env), k + 1):
            c.prove(f"{self.fname}/loop{ordinal}/preserve/{name}", goal, kind="loop-preserve")
        raise LoopCutEnd()

    def infeasible(self):
        raise sym.AssumptionFailed()


def cut(func, specs: Dict[int, LoopSpec], name: str = None):
    src = textwrap.dedent(inspect.getsource(func))
    tree = ast.parse(src)
    fdef = tree.body[0]
    assert isinstance(fdef, (ast.FunctionDef,)), "loopcut: expected a function definition"
    fdef.decorator_list = []
    loops = [n for n in ast.walk(fdef) if isinstance(n, (ast.For, ast.While))]
    loops.sort(key=lambda n: (n.lineno, n.col_offset))
    for ordinal in specs:
        if ordinal >= len(loops):
            raise Unsupported(f"contract-out-of-date: {func.__qualname__} has {len(loops)} loops, contract names loop {ordinal}")
    fname = name or func.__qualname__

    class Tx(ast.NodeTransformer):
        def _rewrite(self, node, ordinal):
            spec = specs[ordinal]
            mods = _modified_names(node.body)
            if isinstance(node, ast.For):
                mods |= {n.id for n in ast.walk(node.target) if isinstance(n, ast.Name)}
                if not (isinstance(node.target, ast.Name) and node.target.id == spec.target):
                    raise Unsupported(f"contract-out-of-date: loop {ordinal} target changed")
            missing = mods - set(spec.modifies)
            if missing:
                raise Unsupported(f"contract-out-of-date: loop {ordinal} of {fname} modifies {sorted(missing)} not covered by the invariant's modifies clause")
            if node.orelse:
                raise Unsupported("loopcut: loop with else clause")
            K = ast.Constant(ordinal)
            loc = ast.Call(ast.Name("locals", ast.Load()), [], [])
            lc = lambda m: ast.Attribute(ast.Name("__lc", ast.Load()), m, ast.Load())  # noqa
            enter_args = [K, loc] + ([node.iter] if isinstance(node, ast.For) else [])
            stmts = []
            mode_if_body = []
            mode_else_body = []

            def assign_havoc(mode):
                out = [ast.Assign([ast.Name("__h", ast.Store())], ast.Call(lc("havoc"), [K, ast.Constant(mode), loc], []))]
                for nm in sorted(set(spec.modifies)):
                    out.append(ast.If(
                        ast.Compare(ast.Constant(nm), [ast.In()], [ast.Name("__h", ast.Load())]),
                        [ast.Assign([ast.Name(nm, ast.Store())], ast.Subscript(ast.Name("__h", ast.Load()), ast.Constant(nm), ast.Load()))],
                        []))
                return out

            mode_if_body += assign_havoc("iter")
            mode_else_body += assign_havoc("exit")
            if isinstance(node, ast.While):
                mode_if_body.append(ast.If(ast.UnaryOp(ast.Not(), node.test), [ast.Expr(ast.Call(lc("infeasible"), [], []))], []))
                mode_else_body.append(ast.If(node.test, [ast.Expr(ast.Call(lc("infeasible"), [], []))], []))
            once = ast.For(
                target=ast.Name("__once", ast.Store()), iter=ast.Tuple([ast.Constant(0)], ast.Load()),
                body=self._visit_body(node.body),
                orelse=[ast.Expr(ast.Call(lc("close"), [K, loc], []))])
            mode_if_body.append(once)
            mode_if_body.append(ast.Expr(ast.Call(lc("after_break"), [K, loc], [])))  # reached only through a break in the body
            stmts.append(ast.If(ast.Call(lc("enter"), enter_args, []), mode_if_body, mode_else_body))
            return stmts

        def _visit_body(self, body):
            out = []
            for b in body:
                r = self.visit(b)
                out.extend(r if isinstance(r, list) else [r])
            return out

        def visit_For(self, node):
            ordinal = loops.index(node)
            if ordinal in specs:
                return self._rewrite(node, ordinal)
            self.generic_visit(node)
            return node

        visit_While = visit_For

    new = Tx().visit(tree)
    ast.fix_missing_locations(new)
    g = dict(func.__globals__)
    rt = _Runtime(specs, fname)
    g["__lc"] = rt
    code = compile(new, inspect.getsourcefile(func) or "<loopcut>", "exec")
    exec(code, g)
    res = g[fdef.name]
    res.__loopcut_runtime__ = rt
    return res
