"""Shadow import: load the UNMODIFIED source files of /repo/linear_operator with ``torch`` bound to
the symbolic model.  The functions obtained this way carry co_filename=/repo/linear_operator/... —
they are the code that runs, compiled from the current working tree on every run.

Must be called in a process that has not imported real torch / linear_operator."""
from __future__ import annotations

import builtins
import importlib
import os
import sys
import types

from . import sym, symops, symtensor, symtorch
from .sym import SymBool, SymInt, SymReal

REPO = os.environ.get("VERIF_REPO", "/repo")
_INSTALLED = None


class _IntMeta(type):
    def __instancecheck__(cls, obj):
        return isinstance(obj, (builtins.int, SymInt))

    def __subclasscheck__(cls, sub):
        return issubclass(sub, builtins.int) or sub is SymInt


class ShimInt(builtins.int, metaclass=_IntMeta):
    """``int`` as seen by the shadowed modules: int(SymInt) stays symbolic, isinstance(SymInt, int)."""

    def __new__(cls, x=0, *a):
        if isinstance(x, (SymInt,)):
            return x
        if isinstance(x, SymBool):
            return SymInt(sym.as_z3_int(x))
        if isinstance(x, SymReal):
            raise sym.Unsupported("int(SymReal)")
        if isinstance(x, symtensor.SymTensor):
            return x.item()
        return builtins.int(x, *a)


class _FloatMeta(type):
    def __instancecheck__(cls, obj):
        return isinstance(obj, (builtins.float, SymReal))


class ShimFloat(builtins.float, metaclass=_FloatMeta):
    def __new__(cls, x=0.0):
        if isinstance(x, SymReal):
            return x
        if isinstance(x, SymInt):
            return SymReal(sym.as_real(x))
        if isinstance(x, symtensor.SymTensor):
            return x.item()
        return builtins.float(x)


class _BoolMeta(type):
    def __instancecheck__(cls, obj):
        return isinstance(obj, (builtins.bool, SymBool))


class ShimBool(metaclass=_BoolMeta):
    def __new__(cls, x=False):
        return builtins.bool(x)


class SymRange:
    """range() with a symbolic bound may only be iterated under LOOPCUT (engine/loopcut.py)."""

    def __init__(self, *a):
        self.args = a
        if len(a) == 1:
            self.start, self.stop, self.step = 0, a[0], 1
        elif len(a) == 2:
            self.start, self.stop, self.step = a[0], a[1], 1
        else:
            self.start, self.stop, self.step = a
        cs = sym.concrete(self.step) if not isinstance(self.step, builtins.int) else self.step
        if cs is None or cs <= 0:
            raise sym.Unsupported("range with symbolic / non-positive step")
        self.step = cs

    def __iter__(self):
        raise sym.Unsupported(f"loop over symbolic range{self.args} without a loop invariant")

    def length(self):
        import z3
        d = sym.as_z3_int(self.stop) - sym.as_z3_int(self.start)
        return sym.lift(z3.If(d <= 0, 0, (d + (self.step - 1)) / self.step))

    def __len__(self):
        raise sym.Unsupported("len(range(symbolic)) through the builtin")

    def __getitem__(self, i):
        n = self.length()
        if isinstance(i, (builtins.slice, SymSlice)):
            raise sym.Unsupported("slicing a symbolic range")
        if builtins.bool((i < -n) | (i >= n)) if not isinstance((i < -n) | (i >= n), builtins.bool) else ((i < -n) | (i >= n)):
            raise IndexError("range object index out of range")
        import z3
        iz = sym.as_z3_int(i)
        return sym.lift(sym.as_z3_int(self.start) + z3.If(iz < 0, iz + sym.as_z3_int(n), iz) * self.step)


class SymSlice:
    """slice object whose fields / whose dimension size may be symbolic (python slice semantics)"""

    def __init__(self, start=None, stop=None, step=None):
        self.start, self.stop, self.step = start, stop, step

    def indices(self, n):
        import z3
        step = 1 if self.step is None else self.step
        cs = sym.concrete(step) if not isinstance(step, builtins.int) else step
        if cs is None:
            raise sym.Unsupported("symbolic slice step")
        if cs == 0:
            raise ValueError("slice step cannot be zero")
        if cs < 0:
            raise sym.Unsupported("negative slice step")
        nz = sym.as_z3_int(n)

        def clamp(v, default):
            if v is None:
                return default
            vz = sym.as_z3_int(v)
            w = z3.If(vz < 0, vz + nz, vz)
            return sym.lift(z3.If(w < 0, 0, z3.If(w > nz, nz, w)))

        return clamp(self.start, 0), clamp(self.stop, n), cs

    def _same(self, a, b):
        if a is None or b is None:
            return a is None and b is None
        return a == b

    def __eq__(self, o):
        if not isinstance(o, (builtins.slice, SymSlice)):
            return False
        r = True
        for a, b in ((self.start, o.start), (self.stop, o.stop), (self.step, o.step)):
            e = self._same(a, b)
            if e is False:
                return False
            if e is True:
                continue
            r = e if r is True else (r & e)
        return r

    def __ne__(self, o):
        e = self.__eq__(o)
        return (not e) if isinstance(e, builtins.bool) else ~e

    __hash__ = None

    def __repr__(self):
        return f"SymSlice({self.start}, {self.stop}, {self.step})"


class _SliceMeta(type):
    def __instancecheck__(cls, obj):
        return isinstance(obj, (builtins.slice, SymSlice))


class ShimSlice(metaclass=_SliceMeta):
    def __new__(cls, *a):
        if len(a) == 1:
            a = (None, a[0], None)
        elif len(a) == 2:
            a = (a[0], a[1], None)
        if builtins.any(isinstance(x, (SymInt,)) for x in a):
            return SymSlice(*a)
        return builtins.slice(*a)


def shim_range(*a):
    if builtins.any(isinstance(x, SymInt) for x in a):
        c = [sym.concrete(x) if isinstance(x, SymInt) else x for x in a]
        if builtins.all(v is not None for v in c):
            return builtins.range(*c)
        return SymRange(*a)
    return builtins.range(*a)


def shim_len(x):
    if isinstance(x, SymRange):
        return x.length()
    if isinstance(x, symtensor.SymTensor):
        if not x.shape:
            raise TypeError("len() of a 0-d tensor")
        return x.shape[0]
    return builtins.len(x)


def shim_min(*a, **k):
    if len(a) == 1:
        a = tuple(a[0])
    if builtins.any(isinstance(x, (SymInt, SymReal)) for x in a):
        return sym.sym_min(*a)
    return builtins.min(*a, **k)


def shim_max(*a, **k):
    if len(a) == 1:
        a = tuple(a[0])
    if builtins.any(isinstance(x, (SymInt, SymReal)) for x in a):
        return sym.sym_max(*a)
    return builtins.max(*a, **k)


def shim_abs(x):
    return abs(x)


SHIMS = {"slice": ShimSlice, "int": ShimInt, "float": ShimFloat, "bool": ShimBool, "range": shim_range, "len": shim_len, "min": shim_min, "max": shim_max}


def install(repo: str = None):
    """returns the shadow ``linear_operator`` package (idempotent)"""
    global _INSTALLED
    if _INSTALLED is not None:
        return _INSTALLED
    repo = repo or REPO
    for name in list(sys.modules):
        if name == "torch" or name.startswith("torch.") or name == "linear_operator" or name.startswith("linear_operator."):
            raise RuntimeError(f"shadow.install(): real module {name} already imported in this process")
    mods, torch = symtorch.build()
    sys.modules.update(mods)
    if repo in sys.path:
        sys.path.remove(repo)
    sys.path.insert(0, repo)
    lo = importlib.import_module("linear_operator")
    assert os.path.abspath(lo.__file__).startswith(os.path.abspath(repo)), lo.__file__
    # make sure every module of the package is loaded, then bind the builtin shims in their globals
    pkgdir = os.path.dirname(lo.__file__)
    for root, dirs, files in os.walk(pkgdir):
        dirs[:] = [d for d in dirs if d not in ("test", "__pycache__")]
        for f in files:
            if f.endswith(".py"):
                rel = os.path.relpath(os.path.join(root, f), os.path.dirname(pkgdir))[:-3].replace(os.sep, ".")
                if rel.endswith(".__init__"):
                    rel = rel[:-9]
                if rel.endswith("keops_linear_operator"):
                    pass
                try:
                    importlib.import_module(rel)
                except Exception as e:  # pragma: no cover
                    raise RuntimeError(f"shadow import of {rel} failed: {e!r}")
    for name, m in list(sys.modules.items()):
        if name == "linear_operator" or name.startswith("linear_operator."):
            if isinstance(m, types.ModuleType):
                for k, v in SHIMS.items():
                    if k not in m.__dict__:
                        m.__dict__[k] = v
    _INSTALLED = lo
    return lo


def torch():
    return sys.modules["torch"]
