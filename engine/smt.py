"""Second-opinion back end: /usr/bin/cvc5 on the SMT-LIB text z3 produced."""
import os
import subprocess
import tempfile

CVC5 = "/usr/bin/cvc5"


def cvc5_check(smt2: str, timeout_s: int = 10) -> str:
    if not os.path.exists(CVC5):
        return "unknown"
    with tempfile.NamedTemporaryFile("w", suffix=".smt2", delete=False, dir=os.environ.get("VERIF_SCRATCH") or None) as f:
        f.write("(set-logic ALL)\n" + smt2 if "(set-logic" not in smt2 else smt2)
        if "(check-sat)" not in smt2:
            f.write("\n(check-sat)\n")
        path = f.name
    try:
        p = subprocess.run(
            [CVC5, "--lang=smt2", f"--tlimit={timeout_s * 1000}", path],
            capture_output=True, text=True, timeout=timeout_s + 5,
        )
        out = p.stdout.strip().splitlines()
        for line in out:
            if line.strip() in ("sat", "unsat", "unknown"):
                return line.strip()
        return "unknown"
    except subprocess.TimeoutExpired:
        return "unknown"
    finally:
        try:
            os.unlink(path)
        except OSError:
            pass
