"""Decision support for identities between finite sums (the entry functions of matrix products).

A real-valued z3 term containing ``SumOver_Real(n, λk. body)`` applications is normalised into a list of
*summands*  (bound variables with ranges, body)  meaning  Σ_{bound} body :
   sums are flattened (nested sums merge: Fubini for finite sums), products distribute over sums
   (factors are pulled inside), +/- split, ``If`` with a sum-free condition distributes.
To prove  lhs == rhs  the summands of  lhs - rhs  are (1) collapsed where a bound variable has single
support (a Kronecker-delta test  v == e), then (2) cancelled pairwise: two summands with the same ranges
cancel if, for some bijection of their bound variables, the solver proves  body1 + body2 == 0  for all
values of the bound variables in range.  Every step is an individual solver query (unsat = proved); the
procedure is sound (it only ever concludes equality from proved cancellations) and incomplete."""
from __future__ import annotations

import itertools

import z3

_cnt = itertools.count()


def _is_sum(t):
    return z3.is_app(t) and t.decl().name().startswith("SumOver_")


def contains_sum(t, _memo=None):
    _memo = {} if _memo is None else _memo
    i = t.get_id()
    if i in _memo:
        return _memo[i]
    r = False
    if _is_sum(t):
        r = True
    elif z3.is_quantifier(t):
        r = contains_sum(t.body(), _memo)
    elif z3.is_app(t):
        r = any(contains_sum(c, _memo) for c in t.children())
    _memo[i] = r
    return r


class TooBig(Exception):
    pass


def normalise(t, depth=0):
    """-> list of (bound [(var, n)], body)"""
    if depth > 40:
        raise TooBig()
    if not contains_sum(t):
        return [([], t)]
    if _is_sum(t):
        lam = t.arg(1)
        v = z3.Int(f"v!nf{next(_cnt)}")
        if z3.is_K(lam):  # constant array: λk. c
            body = lam.arg(0)
        elif z3.is_quantifier(lam) and lam.is_lambda():
            body = z3.substitute_vars(lam.body(), v)
        else:
            return [([], t)]
        out = []
        for bound, b in normalise(body, depth + 1):
            out.append((bound + [(v, t.arg(0))], b))
        return out
    k = t.decl().kind()
    ch = t.children()
    if k == z3.Z3_OP_ADD:
        out = []
        for c in ch:
            out += normalise(c, depth + 1)
        return out
    if k == z3.Z3_OP_SUB:
        out = normalise(ch[0], depth + 1)
        for c in ch[1:]:
            out += [(b, -body) for b, body in normalise(c, depth + 1)]
        return out
    if k == z3.Z3_OP_UMINUS:
        return [(b, -body) for b, body in normalise(ch[0], depth + 1)]
    if k == z3.Z3_OP_MUL:
        acc = [([], None)]
        for c in ch:
            parts = normalise(c, depth + 1)
            new = []
            for (b1, body1) in acc:
                for (b2, body2) in parts:
                    new.append((b1 + b2, body2 if body1 is None else body1 * body2))
            acc = new
            if len(acc) > 64:
                raise TooBig()
        return acc
    if k == z3.Z3_OP_ITE and not contains_sum(ch[0]):
        zero = z3.RealVal(0) if t.sort() == z3.RealSort() else z3.IntVal(0)
        out = [(b, z3.If(ch[0], body, zero)) for b, body in normalise(ch[1], depth + 1)]
        out += [(b, z3.If(ch[0], zero, body)) for b, body in normalise(ch[2], depth + 1)]
        return out
    if k == z3.Z3_OP_TO_REAL:
        return [(b, z3.ToReal(body)) for b, body in normalise(ch[0], depth + 1)]
    if k == z3.Z3_OP_DIV and not contains_sum(ch[1]):
        return [(b, body / ch[1]) for b, body in normalise(ch[0], depth + 1)]
    return [([], t)]  # opaque


SIDE_TIMEOUT_MS = 700
FALLBACK_MS = 250
SIDE_RLIMIT = 40_000_000
_HEAVY = ("SumOver_", "sqrt", "(/ ", "(* ")


def _light(s):
    """a solver holding only the LIGHT assertions of s (no sums, no products / quotients of unknowns, no sqrt): most side
    conditions of the normaliser (index ranges, index equalities, positivity of a scalar) follow from those alone, and a
    query against them never drifts into non-linear arithmetic.  Proving from a subset of the assumptions is sound."""
    asserts = list(s.assertions())
    n = hash(tuple(a.get_id() for a in asserts))  # the exact assertion set (push/pop can bring back the same COUNT with other hypotheses)
    cache = getattr(s, "_verif_light", None)
    if cache is not None and cache[0] == n:
        return cache[1]
    ls = z3.Solver()
    ls.set("timeout", 1000)
    for a in asserts:
        try:
            txt = a.sexpr()
        except z3.Z3Exception:
            continue
        if len(txt) < 4000 and not any(h in txt for h in _HEAVY):
            ls.add(a)
    s._verif_light = (n, ls)
    return ls


def _unsat(s, *facts, cap=None):
    import os
    import time

    t0 = time.time()
    try:
        ls = _light(s)
        ls.push()
        try:
            ls.add(*facts)
            if ls.check() == z3.unsat:
                return True
        finally:
            ls.pop()
    except z3.Z3Exception:
        pass
    s.push()
    try:
        # side conditions of the normaliser are linear / UF facts: when one needs more than a moment the query has drifted
        # into non-linear arithmetic, where z3 may run (far) past its timeout; cap it — 'unknown' only means "not proved this way"
        s.set("timeout", cap or SIDE_TIMEOUT_MS)
        s.set("rlimit", SIDE_RLIMIT)
        s.add(*facts)
        r = s.check()
    except z3.Z3Exception:
        r = z3.unknown
    finally:
        s.pop()
        s.set("timeout", getattr(s, "_verif_timeout", 10000))
        s.set("rlimit", 0)
    if os.environ.get("SUMNF_TRACE") and time.time() - t0 > 1.0:
        import sys

        print(f"[sumnf] slow side query {time.time() - t0:.1f}s -> {r}: {' ; '.join(str(f)[:300] for f in facts)[:900]}", file=sys.stderr, flush=True)
    return r == z3.unsat


def _range_facts(bound):
    return [z3.And(v >= 0, v < n) for v, n in bound]


def _delta_exprs(body, v):
    out, seen = [], set()

    def has(t):
        if t.eq(v):
            return True
        return any(has(c) for c in t.children())

    def walk(t):
        if t.get_id() in seen or z3.is_quantifier(t):
            return
        seen.add(t.get_id())
        if z3.is_eq(t) and t.arg(0).sort() == z3.IntSort():
            a, b = t.arg(0), t.arg(1)
            if a.eq(v) and not has(b):
                out.append(b)
            elif b.eq(v) and not has(a):
                out.append(a)
        for c in t.children():
            walk(c)

    walk(body)
    return out[:4]


def _bcast_ifs(t, out, seen):
    if t.get_id() in seen or z3.is_quantifier(t):
        return
    seen.add(t.get_id())
    if z3.is_app_of(t, z3.Z3_OP_ITE) and t.sort() == z3.IntSort() and z3.is_int_value(t.arg(1)) and t.arg(1).as_long() == 0 and z3.is_eq(t.arg(0)):
        out.append(t)
    for c in t.children():
        _bcast_ifs(c, out, seen)


def debroadcast(s, summands):
    """If(size == 1, 0, i)  (index into an operand broadcast along a dimension of the same size) is  i  when 0 <= i < size"""
    out = []
    for bound, body in summands:
        pats = []
        _bcast_ifs(body, pats, set())
        subs = []
        for p in pats[:12]:
            if _unsat(s, *_range_facts(bound), p != p.arg(2)):
                subs.append((p, p.arg(2)))
        if subs:
            body = z3.substitute(body, *subs)
        out.append((bound, body))
    return out


def collapse(s, summands):
    """single-support bound variables are eliminated"""
    out = []
    for bound, body in summands:
        changed = True
        while changed and bound:
            changed = False
            body = z3.simplify(body)
            for i, (v, n) in enumerate(bound):
                others = bound[:i] + bound[i + 1:]
                for e in _delta_exprs(body, v):
                    if _unsat(s, *_range_facts(bound), v != e, body != 0):
                        body = z3.If(z3.And(e >= 0, e < n), z3.substitute(body, (v, e)), z3.RealVal(0) if body.sort() == z3.RealSort() else z3.IntVal(0))
                        bound = others
                        changed = True
                        break
                if changed:
                    break
        out.append((bound, body))
    return out


def _mentions(t, v):
    if t.eq(v):
        return True
    return any(_mentions(c, v) for c in t.children())


def unroll_small(s, summands):
    """bound variables whose range is provably a small constant under the path condition are unrolled"""
    out = []
    for bound, body in summands:
        todo = [(list(bound), body)]
        done = []
        while todo:
            b, bd = todo.pop()
            hit = None
            for i, (v, n) in enumerate(b):
                if z3.is_int_value(z3.simplify(n)):
                    c = z3.simplify(n).as_long()
                    if c <= 4:
                        hit = (i, c)
                        break
                    continue
                for c in (1, 2, 0, 3):
                    if _unsat(s, n != c):
                        hit = (i, c)
                        break
                if hit:
                    break
            if hit is None:
                done.append((b, bd))
                continue
            i, c = hit
            v = b[i][0]
            rest = b[:i] + b[i + 1:]
            for val in range(c):
                todo.append((list(rest), z3.substitute(bd, (v, z3.IntVal(val)))))
        out += done
    return out


def _expand(summands):
    """bodies into sums of monomials; one summand per monomial"""
    out = []
    for bound, body in summands:
        try:
            b = z3.simplify(body, som=True)
        except z3.Z3Exception:
            b = body
        if z3.is_app(b) and b.decl().kind() == z3.Z3_OP_ADD:
            for c in b.children():
                out.append((list(bound), c))
        else:
            out.append((list(bound), b))
        if len(out) > 200:
            raise TooBig()
    return out


def _factors(t):
    """(numeric coefficient as z3 rational, [non-numeric factors]) of a monomial"""
    coef = z3.RealVal(1)
    fs = []

    def walk(x):
        nonlocal coef
        if z3.is_app(x) and x.decl().kind() == z3.Z3_OP_MUL:
            for c in x.children():
                walk(c)
        elif z3.is_app(x) and x.decl().kind() == z3.Z3_OP_UMINUS:
            coef = coef * -1
            walk(x.arg(0))
        elif z3.is_rational_value(x) or z3.is_int_value(x):
            coef = coef * x
        elif z3.is_app(x) and x.decl().kind() == z3.Z3_OP_TO_REAL and z3.is_int_value(x.arg(0)):
            coef = coef * x.arg(0)
        elif z3.is_app(x) and x.decl().kind() == z3.Z3_OP_DIV and x.sort() == z3.RealSort():
            walk(x.arg(0))  # a / b  =  a * (1 / b)   (z3's total division: identical terms, no side condition)
            d = x.arg(1)
            if z3.is_rational_value(d) and not z3.is_true(z3.simplify(d == 0)):
                coef = coef / d
            else:
                fs.append(z3.RealVal(1) / d)
        else:
            fs.append(x)

    walk(t)
    return z3.simplify(coef), fs


def _sqrt_pairs(s, facts, fs):
    """sqrt(x) * sqrt(x) -> x  when x >= 0 is provable (the defining axiom of the sqrt model, used as a rewrite)"""
    out = list(fs)
    changed = True
    while changed:
        changed = False
        for i in range(len(out)):
            a = out[i]
            if not (z3.is_app(a) and a.decl().name() == "sqrt"):
                continue
            for j in range(i + 1, len(out)):
                b = out[j]
                if z3.is_app(b) and b.decl().name() == "sqrt" and (a.eq(b) or _unsat(s, *facts, a.arg(0) != b.arg(0))) and _unsat(s, *facts, a.arg(0) < 0):
                    x = a.arg(0)
                    out = [f for k_, f in enumerate(out) if k_ not in (i, j)] + [x]
                    changed = True
                    break
            if changed:
                break
    return out


def _is_recip(t):
    return z3.is_app(t) and t.decl().kind() == z3.Z3_OP_DIV and z3.is_rational_value(t.arg(0)) and z3.is_true(z3.simplify(t.arg(0) == 1))


def _div_pairs(s, facts, fs):
    """y * (1 / y) -> 1  when y != 0 is provable"""
    out = list(fs)
    changed = True
    while changed:
        changed = False
        for i, a in enumerate(out):
            if not _is_recip(a):
                continue
            y = a.arg(1)
            for j, b in enumerate(out):
                if j != i and b.sort() == y.sort() and (b.eq(y) or _unsat(s, *facts, b != y)) and _unsat(s, *facts, y == 0):
                    out = [f for k_, f in enumerate(out) if k_ not in (i, j)]
                    changed = True
                    break
            if changed:
                break
    return out


def _pre_sqrt(s, expr):
    """apply the sqrt(x)*sqrt(x) -> x rewrite on the monomials of expr before sums are normalised"""
    try:
        e = z3.simplify(expr, som=True)
    except z3.Z3Exception:
        return expr
    monos = e.children() if (z3.is_app(e) and e.decl().kind() == z3.Z3_OP_ADD) else [e]
    out = None
    for m in monos:
        c, fs = _factors(m)
        if sum(1 for f in fs if z3.is_app(f) and f.decl().name() == "sqrt") >= 2:
            fs = _sqrt_pairs(s, [], fs)
        t = c
        for f in fs:
            t = t * (z3.ToReal(f) if f.sort() == z3.IntSort() else f)
        out = t if out is None else out + t
    return out if out is not None else expr


def cancels(s, facts, m1, m2) -> bool:
    """m1 + m2 == 0 : first by AC-matching of factors (each factor equality is a linear/UF query), then by
    asking the solver for the non-linear identity directly"""
    c1, f1 = _factors(z3.simplify(m1))
    c2, f2 = _factors(z3.simplify(m2))
    if any(z3.is_app(f) and f.decl().name() == "sqrt" for f in f1 + f2):
        f1, f2 = _sqrt_pairs(s, facts, f1), _sqrt_pairs(s, facts, f2)
    if any(_is_recip(f) for f in f1 + f2):
        f1, f2 = _div_pairs(s, facts, f1), _div_pairs(s, facts, f2)
    if any(z3.is_app_of(f, z3.Z3_OP_ITE) for f in f1 + f2):  # indicator factors that are 1 under the hypotheses (e.g. a mask known to be set)
        one = lambda f: z3.RealVal(1) if f.sort() == z3.RealSort() else z3.IntVal(1)  # noqa
        f1 = [f for f in f1 if not (z3.is_app_of(f, z3.Z3_OP_ITE) and _unsat(s, *facts, f != one(f)))]
        f2 = [f for f in f2 if not (z3.is_app_of(f, z3.Z3_OP_ITE) and _unsat(s, *facts, f != one(f)))]
    if len(f1) == len(f2) and z3.is_true(z3.simplify(c1 + c2 == 0)):
        s.push()
        s.add(*facts)
        remaining = list(f2)
        ok = True
        for a in f1:
            hit = None
            for j, b in enumerate(remaining):
                if a.sort() != b.sort():
                    continue
                if a.eq(b) or _unsat(s, a != b):
                    hit = j
                    break
            if hit is None:
                ok = False
                break
            remaining.pop(hit)
        s.pop()
        if ok:
            return True
    return _unsat(s, *facts, m1 + m2 != 0, cap=FALLBACK_MS)  # (a non-linear identity asked of the solver directly: rarely decides anything)


_abs_cnt = itertools.count()


def _abstract_atoms(lhs, rhs):
    """generalise the goal: closed sub-terms the normaliser treats as opaque atoms anyway (an If whose condition contains a
    sum, e.g. a safe-division step size) are replaced by fresh constants when they are big.  lhs' == rhs' for arbitrary
    values of the constants implies lhs == rhs; the side queries then no longer drag those terms along."""
    found = {}

    def walk(t, depth=0):
        if depth > 60 or z3.is_quantifier(t) or not z3.is_app(t):
            return
        if z3.is_app_of(t, z3.Z3_OP_ITE) and t.sort() in (z3.RealSort(), z3.IntSort()) and contains_sum(t.arg(0)):
            try:
                big = len(t.sexpr()) > 400
            except z3.Z3Exception:
                big = False
            if big:
                found.setdefault(t.get_id(), t)
                return
        for c in t.children():
            walk(c, depth + 1)

    walk(lhs)
    walk(rhs)
    if not found:
        return lhs, rhs
    subs = [(t, z3.Const(f"abs!{next(_abs_cnt)}", t.sort())) for t in found.values()]
    return z3.substitute(lhs, *subs), z3.substitute(rhs, *subs)


def prove_equal(s: z3.Solver, lhs, rhs) -> bool:
    """True if  lhs == rhs  follows (under the assertions of s) by sum normalisation + cancellation"""
    try:
        lhs, rhs = _abstract_atoms(lhs, rhs)
        expr = lhs - rhs
        if "sqrt" in expr.sexpr()[:100000]:
            expr = _pre_sqrt(s, expr)
        summands = normalise(expr)
        summands = unroll_small(s, summands)
        summands = _expand(summands)
        summands = debroadcast(s, summands)
        summands = collapse(s, summands)
        summands = _expand(summands)
    except TooBig:
        return False
    # drop summands that are identically zero
    live = []
    for bound, body in summands:
        if _unsat(s, *_range_facts(bound), body != 0, cap=FALLBACK_MS):
            continue
        live.append((bound, body))
    plain = [body for bound, body in live if not bound]
    sums = [(bound, body) for bound, body in live if bound]
    used = [False] * len(sums)
    for i, (b1, body1) in enumerate(sums):
        if used[i]:
            continue
        found = False
        for j in range(i + 1, len(sums)):
            if used[j]:
                continue
            b2, body2 = sums[j]
            if len(b1) != len(b2):
                continue
            for perm in itertools.permutations(range(len(b2))):
                # ranges must agree under the bijection
                if not all(_unsat(s, b1[a][1] != b2[perm[a]][1]) for a in range(len(b1))):
                    continue
                sub = [(b2[perm[a]][0], b1[a][0]) for a in range(len(b1))]
                body2p = z3.substitute(body2, *sub)
                if cancels(s, _range_facts(b1), body1, body2p):
                    found = True
                    break
            if found:
                used[i] = used[j] = True
                break
        if not found:
            return False
    # plain monomials: cancel pairwise first, the rest in one query
    rest = []
    pl = list(plain)
    while pl:
        a = pl.pop()
        for j, b in enumerate(pl):
            if a.sort() == b.sort() and cancels(s, [], a, b):
                pl.pop(j)
                break
        else:
            rest.append(a)
    if not rest:
        return True
    total = z3.RealVal(0)
    for p in rest:
        total = total + (z3.ToReal(p) if p.sort() == z3.IntSort() else p)
    return _unsat(s, total != 0)


def _eq_facts(s, limit=40):
    """equalities  p == q  among the assertions of s (also inside  hyp -> (p == q)  clauses whose hypothesis is entailed)
    where p or q contains a sum"""
    out = []

    def consider(f, guards):
        if z3.is_eq(f) and f.arg(0).sort() in (z3.RealSort(), z3.IntSort()) and (contains_sum(f.arg(0)) or contains_sum(f.arg(1))):
            if not guards or _unsat(s, z3.Not(z3.And(*guards))):
                out.append((f.arg(0), f.arg(1)))
        elif z3.is_implies(f):
            consider(f.arg(1), guards + [f.arg(0)])
        elif z3.is_or(f):
            ch = f.children()
            eqs = [c for c in ch if z3.is_eq(c) and (contains_sum(c.arg(0)) or contains_sum(c.arg(1)))]
            if len(eqs) == 1:
                consider(eqs[0], guards + [z3.Not(c) for c in ch if not c.eq(eqs[0])])
        elif z3.is_and(f):
            for c in f.children():
                consider(c, guards)

    for a in s.assertions():
        consider(a, [])
        if len(out) >= limit:
            break
    return out


def prove_via_facts(s, a, b) -> bool:
    facts = _eq_facts(s)
    # (1) rewrite: a fact  u(args) == expr  with u an uninterpreted application occurring in the goal (e.g. the assumed loop
    # invariant  residual(i, c) == bhat(i, c) - sum_j A(i, j) x(j, c)) is used as a left-to-right rewrite of the goal
    subs = []
    for p, q in facts:
        for u, e in ((p, q), (q, p)):
            if z3.is_app(u) and u.num_args() > 0 and u.decl().kind() == z3.Z3_OP_UNINTERPRETED and not contains_sum(u) and not _mentions(e, u):
                subs.append((u, e))
    if subs:
        try:
            a2, b2 = z3.substitute(a, *subs), z3.substitute(b, *subs)
            if not (a2.eq(a) and b2.eq(b)) and prove_equal(s, a2, b2):
                return True
        except z3.Z3Exception:
            pass
    for p, q in facts:
        for x, y in ((p, q), (q, p)):
            for g1, g2 in ((a, b), (b, a)):
                try:
                    if prove_equal(s, g1, x) and (g2.eq(y) or prove_equal(s, g2, y) or _unsat(s, g2 != y)):
                        return True
                except z3.Z3Exception:
                    pass
    return False
