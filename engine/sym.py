"""Symbolic scalars + path explorer (decision-prefix re-execution).

The real functions of /repo are executed by CPython on these values.  Every branch on a symbolic
condition (``bool(SymBool)``) is decided by z3 under the current path condition; when both sides
are feasible the explorer records the decision and re-runs the function later with the other
polarity.  A run that finishes is one *path*; the set of all paths is exhaustive for the explored
signature unless a budget guard fires (reported as ``unsupported``; never as a pass).

Python semantics assumed by the encoding: ints are mathematical integers (true in CPython);
``//`` and ``%`` are floor division / modulus (encoded with a sign case split); floats are
mathematical reals.
"""
from __future__ import annotations

import itertools
import os
import sys
import time
from typing import Any, Callable, List, Optional

import z3

# --------------------------------------------------------------------------------------------
# exceptions used by the engine


class Unsupported(Exception):
    """The engine cannot model what the code just did (never turned into pass/violation)."""


class PathBudgetExceeded(Unsupported):
    pass


class PathEnd(Exception):
    """a path that ends by construction (e.g. the 'preserve' leg of a cut loop)"""


class AssumptionFailed(Exception):
    """A path on which an ``assume`` is infeasible: silently dropped."""


# --------------------------------------------------------------------------------------------
# exploration context

_CTX: Optional["Context"] = None


def ctx() -> "Context":
    if _CTX is None:
        raise RuntimeError("no active exploration context")
    return _CTX


class Context:
    """State of one path."""

    def __init__(self, prefix: List[bool], timeout_ms: int = 10000):
        timeout_ms = int(timeout_ms * float(os.environ.get("VERIF_TIMEOUT_SCALE", "1") or 1))  # (the CLI's second chance for undecided units)
        self.prefix = list(prefix)
        self.decisions: List[bool] = []  # every *free* decision taken on this path
        self.pending: List[List[bool]] = []  # prefixes to explore later
        self.pc: List[z3.BoolRef] = []
        self.solver = z3.Solver()
        self.solver.set("timeout", timeout_ms)
        self.solver._verif_timeout = timeout_ms
        self.events: List[tuple] = []  # (kind, payload) — warnings, frame writes, ...
        self.obligations: List[dict] = []
        self.fresh = itertools.count()
        self.solver_s = 0.0
        self.solver_calls = 0
        self.names: dict = {}
        self._axioms: set = set()
        self.universals: list = []  # (rank, fn(idx) -> z3 Bool): universally quantified facts of this path

    # -- naming -------------------------------------------------------------------------
    def fresh_name(self, base: str) -> str:
        k = self.names.get(base, 0)
        self.names[base] = k + 1
        return base if k == 0 else f"{base}#{k}"

    # -- path condition -----------------------------------------------------------------
    def assume(self, cond) -> None:
        c = as_z3_bool(cond)
        c = z3.simplify(c)
        if z3.is_true(c):
            return
        self.pc.append(c)
        self.solver.add(c)
        if z3.is_false(c) or self._check() == z3.unsat:
            raise AssumptionFailed()

    def _check(self, *extra):
        t = time.time()
        try:
            r = self.solver.check(*extra)
        except z3.Z3Exception:
            r = z3.unknown
        self.solver_s += time.time() - t
        self.solver_calls += 1
        return r

    def feasible(self, cond) -> Optional[bool]:
        """True / False / None(unknown): is pc ∧ cond satisfiable?"""
        r = self._check(cond)
        if r == z3.sat:
            return True
        if r == z3.unsat:
            return False
        return None

    def decide(self, cond: z3.BoolRef) -> bool:
        cond = z3.simplify(cond)
        if z3.is_true(cond):
            return True
        if z3.is_false(cond):
            return False
        ft = self.feasible(cond)
        ff = self.feasible(z3.Not(cond))
        if ft is None or ff is None:
            # unknown: treat both as feasible (over-approximation of paths is sound for
            # universally quantified postconditions; the path condition keeps the literal)
            ft = True if ft is None else ft
            ff = True if ff is None else ff
        if ft and not ff:
            return True
        if ff and not ft:
            return False
        if not ft and not ff:
            raise AssumptionFailed()
        # genuine fork
        pos = len(self.decisions)
        if pos < len(self.prefix):
            choice = self.prefix[pos]
        else:
            choice = True
            self.pending.append(self.decisions + [False])
        self.decisions.append(choice)
        lit = cond if choice else z3.Not(cond)
        self.pc.append(lit)
        self.solver.add(lit)
        return choice

    def fork(self, label: str = "nondet") -> bool:
        """A free boolean (over-approximates a data dependent branch on opaque data)."""
        b = z3.Bool(self.fresh_name(f"{label}"))
        return self.decide(b)

    # -- obligations ----------------------------------------------------------------------
    def prove(self, name: str, goal, kind: str = "post", info: Any = None) -> dict:
        """Record obligation  pc ⊢ goal  and try to discharge it now."""
        g = as_z3_bool(goal)
        _t0 = time.time()
        res = prove_under(self.pc, g, solver=self.solver, ctxobj=self)
        if os.environ.get("SHADOW_TRACE"):
            print(f"[trace] {res['status']:10s} {time.time() - _t0:6.1f}s {name}", file=sys.stderr, flush=True)
        ob = {"name": name, "kind": kind, "status": res["status"], "info": info, "by": res.get("by", "z3")}
        if res.get("model") is not None:
            ob["model"] = res["model"]
        if res.get("reason"):
            ob["reason"] = res["reason"]
        ob["smt2"] = None
        if res["status"] != "discharged":
            try:
                s = z3.Solver()
                s.add(*self.pc)
                s.add(z3.Not(g))
                ob["smt2"] = s.to_smt2()
            except Exception:  # pragma: no cover
                pass
        self.obligations.append(ob)
        return ob

    def add_axiom(self, fact) -> None:
        """instance of a universally quantified fact known on this path (no feasibility check)"""
        f = z3.simplify(as_z3_bool(fact))
        if z3.is_true(f):
            return
        key = f.get_id()
        if key in self._axioms:
            return
        self._axioms.add(key)
        self.pc.append(f)
        self.solver.add(f)

    def event(self, kind: str, payload: Any = None) -> None:
        self.events.append((kind, payload))


def instantiate_universals(idx, key=None) -> None:
    """instantiate every registered universal fact with the given key (default: the rank of idx) at idx"""
    c = ctx()
    key = len(idx) if key is None else key
    for k_, fn in list(c.universals):
        if k_ == key:
            c.add_axiom(fn(tuple(idx)))


def model_to_dict(m: z3.ModelRef) -> dict:
    out = {}
    for d in m.decls():
        try:
            v = m[d]
            out[d.name()] = str(v)
        except Exception:  # pragma: no cover
            out[d.name()] = "?"
    return out


def _sum_terms(t, acc, seen):
    """collect SumOver_* applications (outermost first)"""
    if t.get_id() in seen:
        return
    seen.add(t.get_id())
    if z3.is_app(t):
        if t.decl().name().startswith("SumOver_"):
            acc.append(t)
        for ch in t.children():
            _sum_terms(ch, acc, seen)
    # (sums nested inside another lambda contain de Bruijn variables: lemmas about them cannot be asserted; they are
    #  handled by engine/sumnf.py, which instantiates the bound variables first)


_SUM_K = itertools.count()


def sum_congruence_lemmas(s: z3.Solver, goal, depth=0):
    """Sound lemmas  SumOver(n1, λ f) == SumOver(n2, λ g)  whenever  n1 == n2  and  f(k) == g(k) for a fresh
    k in [0, n1)  are provable under the current solver state (extensionality of the summation
    functional — the solver does not find this on its own).  Added to ``s`` permanently."""
    acc: list = []
    _sum_terms(goal, acc, set())
    for a in s.assertions():
        if len(acc) > 40:
            break
    if len(acc) < 2 or depth > 2:
        return 0
    added = 0
    tops = [t for t in acc if z3.is_quantifier(t.arg(1)) and t.arg(1).is_lambda()]
    for i in range(len(tops)):
        for j in range(i + 1, len(tops)):
            a, b = tops[i], tops[j]
            if a.decl() != b.decl() or a.eq(b):
                continue
            k = z3.Int(f"k!ext{next(_SUM_K)}")
            fa = z3.substitute_vars(a.arg(1).body(), k)
            fb = z3.substitute_vars(b.arg(1).body(), k)
            s.push()
            s.add(k >= 0, k < a.arg(0))
            side = z3.And(a.arg(0) == b.arg(0), fa == fb)
            sum_congruence_lemmas(s, side, depth + 1)
            s.add(z3.Not(side))
            r = s.check()
            s.pop()
            if r == z3.unsat:
                s.add(a == b)
                added += 1
    return added


def _delta_candidates(body, var):
    """expressions e (free of the bound variable) such that the body tests  k == e"""
    out, seen = [], set()

    def has_var(t):
        if z3.is_var(t):
            return z3.get_var_index(t) == var
        return any(has_var(c) for c in t.children())

    def walk(t):
        if t.get_id() in seen or z3.is_quantifier(t):
            return
        seen.add(t.get_id())
        if z3.is_eq(t) and t.arg(0).sort() == z3.IntSort():
            a, b = t.arg(0), t.arg(1)
            if z3.is_var(a) and z3.get_var_index(a) == var and not has_var(b):
                out.append(b)
            elif z3.is_var(b) and z3.get_var_index(b) == var and not has_var(a):
                out.append(a)
        for c in t.children():
            walk(c)

    walk(body)
    return out[:4]


def sum_single_support_lemmas(s: z3.Solver, goal) -> int:
    """Sound lemmas  SumOver(n, λk. body(k)) == If(0 <= e < n, body(e), 0)  whenever  body(k) == 0 for every
    k != e in [0, n)  is provable (sums with a Kronecker-delta factor: diagonal, identity, block and
    permutation structure)."""
    acc: list = []
    _sum_terms(goal, acc, set())
    added = 0
    for S in acc[:12]:
        lam = S.arg(1)
        if not (z3.is_quantifier(lam) and lam.is_lambda()):
            continue
        body0 = lam.body()
        zero = z3.RealVal(0) if S.sort() == z3.RealSort() else z3.IntVal(0)
        for e in _delta_candidates(body0, 0):
            k = z3.Int(f"k!ss{next(_SUM_K)}")
            bk = z3.substitute_vars(body0, k)
            s.push()
            s.add(k >= 0, k < S.arg(0), k != e, bk != zero)
            r = s.check()
            s.pop()
            if r == z3.unsat:
                be = z3.substitute_vars(body0, e)
                s.add(S == z3.If(z3.And(e >= 0, e < S.arg(0)), be, zero))
                added += 1
                break
    return added


def prove_under(pc, goal, solver=None, ctxobj=None, timeout_ms: int = 10000) -> dict:
    goal = z3.simplify(goal)
    if z3.is_true(goal):
        return {"status": "discharged", "by": "simplify"}
    s = solver
    own = False
    if s is None:
        s = z3.Solver()
        s.set("timeout", timeout_ms)
        s.add(*pc)
        own = True
    t = time.time()
    # a goal that is (an instance of) an assumption is settled by the solver at once: ask it first, briefly
    s.push()
    try:
        s.set("timeout", 250)  # (an instance of an assumption is decided in milliseconds; anything else goes to the sum prover)
        s.add(z3.Not(goal))
        quick = s.check()
    except z3.Z3Exception:
        quick = z3.unknown
    finally:
        s.pop()
        s.set("timeout", getattr(s, "_verif_timeout", timeout_ms))
    if quick == z3.unsat:
        return {"status": "discharged", "by": "z3"}
    if quick == z3.unknown:
        # the same question against the LIGHT assertions only (no sums / products / quotients of unknowns among the hypotheses):
        # a subset of the assumptions, so 'unsat' is sound; it settles goals that only need propositional / linear reasoning
        # but sit in a context that has drifted into non-linear arithmetic
        try:
            from . import sumnf as _snf

            ls = _snf._light(s)
            ls.push()
            try:
                ls.set("timeout", 300)
                ls.add(z3.Not(goal))
                if ls.check() == z3.unsat:
                    return {"status": "discharged", "by": "z3 (light context)"}
            finally:
                ls.pop()
                ls.set("timeout", 1000)
        except z3.Z3Exception:
            pass
    s.push()
    try:
        if "SumOver_" in goal.sexpr()[:200000]:
            g = goal
            while z3.is_implies(g):  # move hypotheses to the left so that the side lemmas can use them
                s.add(g.arg(0))
                g = g.arg(1)
            if z3.is_or(g):
                keep = []
                for d in g.children():
                    if "SumOver_" in d.sexpr():
                        keep.append(d)
                    else:
                        s.add(z3.Not(d))
                g = (keep[0] if len(keep) == 1 else z3.Or(*keep)) if keep else z3.BoolVal(False)
            goal = g
            if z3.is_eq(goal) and goal.arg(0).sort() in (z3.RealSort(), z3.IntSort()):
                from . import sumnf

                t1 = time.time()
                okk = sumnf.prove_equal(s, goal.arg(0), goal.arg(1))
                if not okk:
                    # bridge through an assumed sum identity  p == q  (an instantiated leaf fact / hypothesis):
                    # if one side of the goal equals p by sum normalisation and q equals the other side, done
                    okk = sumnf.prove_via_facts(s, goal.arg(0), goal.arg(1))
                if ctxobj is not None:
                    ctxobj.solver_s += time.time() - t1
                if okk:
                    s.pop()
                    return {"status": "discharged", "by": "z3+sumnf"}
            sum_single_support_lemmas(s, goal)
            sum_congruence_lemmas(s, goal)
    except z3.Z3Exception:
        pass
    s.add(z3.Not(goal))
    r = s.check()
    out: dict
    if r == z3.unsat:
        out = {"status": "discharged", "by": "z3"}
    elif r == z3.sat:
        out = {"status": "refuted", "model": model_to_dict(s.model()), "z3model": None}
    else:
        out = {"status": "unknown", "reason": s.reason_unknown()}
    s.pop()
    if ctxobj is not None:
        ctxobj.solver_s += time.time() - t
        ctxobj.solver_calls += 1
    if out["status"] == "unknown":
        # second opinion: cvc5 on the same SMT-LIB text
        try:
            from . import smt

            s2 = z3.Solver()
            s2.add(*pc)
            s2.add(z3.Not(goal))
            r2 = smt.cvc5_check(s2.to_smt2(), timeout_s=max(5, timeout_ms // 1000))
            if r2 == "unsat":
                out = {"status": "discharged", "by": "cvc5"}
            elif r2 == "sat":
                out = {"status": "refuted", "model": {"_by": "cvc5 (no model extracted)"}}
        except Exception as e:  # pragma: no cover
            out["reason"] = f"{out.get('reason')}; cvc5: {e!r}"
    return out


# --------------------------------------------------------------------------------------------
# symbolic scalars


def as_z3_bool(x) -> z3.BoolRef:
    if isinstance(x, SymBool):
        return x.t
    if isinstance(x, bool):
        return z3.BoolVal(x)
    if isinstance(x, z3.BoolRef):
        return x
    raise TypeError(f"not a boolean: {x!r}")


def as_z3_int(x):
    if isinstance(x, SymInt):
        return x.t
    if isinstance(x, bool):
        return z3.IntVal(int(x))
    if isinstance(x, int):
        return z3.IntVal(x)
    if isinstance(x, z3.ArithRef) and x.is_int():
        return x
    if isinstance(x, SymBool):
        return z3.If(x.t, z3.IntVal(1), z3.IntVal(0))
    raise TypeError(f"not an integer: {x!r} ({type(x).__name__})")


def as_z3_num(x):
    if isinstance(x, (SymInt, SymReal)):
        return x.t
    if isinstance(x, bool):
        return z3.IntVal(int(x))
    if isinstance(x, int):
        return z3.IntVal(x)
    if isinstance(x, float):
        return z3.RealVal(repr(x)) if x == x and abs(x) != float("inf") else _special_real(x)
    if isinstance(x, z3.ArithRef):
        return x
    if isinstance(x, SymBool):
        return z3.If(x.t, z3.IntVal(1), z3.IntVal(0))
    raise TypeError(f"not a number: {x!r}")


_SPECIAL = {}


def _special_real(x: float):
    key = "nan" if x != x else ("+inf" if x > 0 else "-inf")
    if key not in _SPECIAL:
        _SPECIAL[key] = z3.Real(f"__{key}__")
    return _SPECIAL[key]


def concrete(x):
    """Return python value if x is (or simplifies to) a constant, else None."""
    if isinstance(x, (int, float, bool)):
        return x
    if isinstance(x, SymInt):
        t = z3.simplify(x.t)
        if z3.is_int_value(t):
            return t.as_long()
        return None
    if isinstance(x, SymBool):
        t = z3.simplify(x.t)
        if z3.is_true(t):
            return True
        if z3.is_false(t):
            return False
        return None
    return None


def lift(t):
    """z3 term -> python constant if constant else Sym wrapper."""
    if isinstance(t, (int, float, bool, SymInt, SymBool, SymReal)):
        return t
    t = z3.simplify(t)
    if z3.is_int_value(t):
        return t.as_long()
    if z3.is_true(t):
        return True
    if z3.is_false(t):
        return False
    if isinstance(t, z3.BoolRef):
        return SymBool(t)
    if isinstance(t, z3.ArithRef):
        return SymInt(t) if t.is_int() else SymReal(t)
    raise TypeError(t)


class SymBool:
    __slots__ = ("t",)

    def __init__(self, t):
        self.t = t

    def __bool__(self):
        return ctx().decide(self.t)

    def __and__(self, o):
        return lift(z3.And(self.t, as_z3_bool(o)))

    __rand__ = __and__

    def __or__(self, o):
        return lift(z3.Or(self.t, as_z3_bool(o)))

    __ror__ = __or__

    def __invert__(self):
        return lift(z3.Not(self.t))

    def __eq__(self, o):  # type: ignore[override]
        return lift(self.t == as_z3_bool(o))

    def __ne__(self, o):  # type: ignore[override]
        return lift(self.t != as_z3_bool(o))

    def __hash__(self):
        return hash(self.t)

    def __repr__(self):
        return f"SymBool({self.t})"

    # arithmetic use of booleans (True + 1)
    def __add__(self, o):
        return SymInt(as_z3_int(self)) + o

    __radd__ = __add__

    def __int__(self):
        return SymInt(as_z3_int(self))  # type: ignore[return-value]


def _floordiv(a, b):
    # python floor division of mathematical integers
    return z3.If(b > 0, a / b, z3.If(b < 0, (-a) / (-b), z3.IntVal(0) / b))


def _mod(a, b):
    return a - b * _floordiv(a, b)


class SymInt:
    __slots__ = ("t",)

    def __init__(self, t):
        if isinstance(t, str):
            t = z3.Int(t)
        self.t = t

    # arithmetic
    def __add__(self, o):
        if isinstance(o, (float, SymReal)):
            return SymReal(z3.ToReal(self.t)) + o
        try:
            return lift(self.t + as_z3_int(o))
        except TypeError:
            return NotImplemented

    __radd__ = __add__

    def __sub__(self, o):
        if isinstance(o, (float, SymReal)):
            return SymReal(z3.ToReal(self.t)) - o
        try:
            return lift(self.t - as_z3_int(o))
        except TypeError:
            return NotImplemented

    def __rsub__(self, o):
        try:
            return lift(as_z3_int(o) - self.t)
        except TypeError:
            return NotImplemented

    def __mul__(self, o):
        if isinstance(o, (float, SymReal)):
            return SymReal(z3.ToReal(self.t)) * o
        try:
            return lift(self.t * as_z3_int(o))
        except TypeError:
            return NotImplemented

    __rmul__ = __mul__

    def __neg__(self):
        return lift(-self.t)

    def __pos__(self):
        return self

    def __abs__(self):
        return lift(z3.If(self.t >= 0, self.t, -self.t))

    def __floordiv__(self, o):
        b = as_z3_int(o)
        c = concrete(lift(b))
        if c is not None:
            if c == 0:
                raise ZeroDivisionError("integer division or modulo by zero")
        else:
            if bool(lift(b == 0)):
                raise ZeroDivisionError("integer division or modulo by zero")
        return lift(_floordiv(self.t, b))

    def __rfloordiv__(self, o):
        return SymInt(as_z3_int(o)).__floordiv__(self)

    def __mod__(self, o):
        b = as_z3_int(o)
        c = concrete(lift(b))
        if c is not None:
            if c == 0:
                raise ZeroDivisionError("integer division or modulo by zero")
        else:
            if bool(lift(b == 0)):
                raise ZeroDivisionError("integer division or modulo by zero")
        return lift(_mod(self.t, b))

    def __rmod__(self, o):
        return SymInt(as_z3_int(o)).__mod__(self)

    def __divmod__(self, o):
        return (self // o, self % o)

    def __truediv__(self, o):
        return SymReal(z3.ToReal(self.t)) / o

    def __rtruediv__(self, o):
        return SymReal(as_real(o)) / self

    def __pow__(self, o):
        c = concrete(o) if not isinstance(o, int) else o
        if isinstance(c, int) and 0 <= c <= 8:
            r = z3.IntVal(1)
            for _ in range(c):
                r = r * self.t
            return lift(r)
        raise Unsupported("SymInt ** symbolic")

    def __rpow__(self, base):
        """base ** self for a concrete integer base: uninterpreted pow_<base> with its recurrence
        instantiated at the terms that occur (pow(0)=1, pow(i)=base*pow(i-1) for i>0)"""
        if not isinstance(base, int) or base < 2:
            raise Unsupported("symbolic exponent with non-constant base")
        f = uf(f"pow{base}", z3.IntSort(), z3.IntSort())
        if _CTX is not None:
            i = self.t
            _CTX.add_axiom(z3.And(f(z3.IntVal(0)) == 1, z3.Implies(i > 0, f(i) == base * f(i - 1)), z3.Implies(i >= 0, f(i) >= 1),
                                  z3.Implies(i >= 0, f(i + 1) == base * f(i))))
        return SymInt(f(self.t))

    def __format__(self, spec):
        return str(self.t)

    # comparisons
    def _cmp(self, o, op):
        if isinstance(o, (float, SymReal)):
            return getattr(SymReal(z3.ToReal(self.t)), op)(o)
        try:
            b = as_z3_int(o)
        except TypeError:
            return NotImplemented
        return lift(getattr(self.t, op)(b))

    def __lt__(self, o):
        return self._cmp(o, "__lt__")

    def __le__(self, o):
        return self._cmp(o, "__le__")

    def __gt__(self, o):
        return self._cmp(o, "__gt__")

    def __ge__(self, o):
        return self._cmp(o, "__ge__")

    def __eq__(self, o):  # type: ignore[override]
        if o is None or isinstance(o, (str, tuple, list)):
            return False
        r = self._cmp(o, "__eq__")
        return False if r is NotImplemented else r

    def __ne__(self, o):  # type: ignore[override]
        if o is None or isinstance(o, (str, tuple, list)):
            return True
        r = self._cmp(o, "__ne__")
        return True if r is NotImplemented else r

    def __hash__(self):
        # constant: symbolic integers that are equal under the path condition must collide in sets / dicts so
        # that membership tests reach __eq__ (which forks on the solver) instead of silently missing
        return 0x5EED

    def __bool__(self):
        return bool(lift(self.t != 0))

    def __index__(self):
        c = concrete(self)
        if c is None:
            raise Unsupported(f"concretisation of symbolic integer {self.t} requested (__index__)")
        return c

    def __int__(self):
        return self  # type: ignore[return-value]

    def __repr__(self):
        return f"SymInt({self.t})"

    def item(self):
        return self


def as_real(x):
    if isinstance(x, SymReal):
        return x.t
    if isinstance(x, SymInt):
        return z3.ToReal(x.t)
    if isinstance(x, bool):
        return z3.RealVal(int(x))
    if isinstance(x, int):
        return z3.RealVal(x)
    if isinstance(x, float):
        return as_z3_num(x)
    if isinstance(x, z3.ArithRef):
        return z3.ToReal(x) if x.is_int() else x
    if isinstance(x, SymBool):
        return z3.If(x.t, z3.RealVal(1), z3.RealVal(0))
    raise TypeError(f"not a real: {x!r}")


class SymReal:
    __slots__ = ("t",)

    def __init__(self, t):
        if isinstance(t, str):
            t = z3.Real(t)
        self.t = t

    def _num(self, o):
        return isinstance(o, (int, float, bool, SymInt, SymReal, SymBool)) or isinstance(o, z3.ArithRef)

    def __add__(self, o):
        if not self._num(o):
            return NotImplemented
        return SymReal(z3.simplify(self.t + as_real(o)))

    __radd__ = __add__

    def __sub__(self, o):
        if not self._num(o):
            return NotImplemented
        return SymReal(z3.simplify(self.t - as_real(o)))

    def __rsub__(self, o):
        if not self._num(o):
            return NotImplemented
        return SymReal(z3.simplify(as_real(o) - self.t))

    def __mul__(self, o):
        if not self._num(o):
            return NotImplemented
        return SymReal(z3.simplify(self.t * as_real(o)))

    __rmul__ = __mul__

    def __truediv__(self, o):
        if not self._num(o):
            return NotImplemented
        return SymReal(self.t / as_real(o))

    def __rtruediv__(self, o):
        if not self._num(o):
            return NotImplemented
        return SymReal(as_real(o) / self.t)

    def __neg__(self):
        return SymReal(-self.t)

    def __abs__(self):
        return SymReal(z3.If(self.t >= 0, self.t, -self.t))

    def __pow__(self, o):
        if isinstance(o, int) and 0 <= o <= 8:
            r = z3.RealVal(1)
            for _ in range(o):
                r = r * self.t
            return SymReal(r)
        return SymReal(uf("pow", z3.RealSort(), z3.RealSort(), z3.RealSort())(self.t, as_real(o)))

    def __rpow__(self, o):
        return SymReal(uf("pow", z3.RealSort(), z3.RealSort(), z3.RealSort())(as_real(o), self.t))

    def _cmp(self, o, op):
        return lift(getattr(self.t, op)(as_real(o)))

    def __lt__(self, o):
        return self._cmp(o, "__lt__")

    def __le__(self, o):
        return self._cmp(o, "__le__")

    def __gt__(self, o):
        return self._cmp(o, "__gt__")

    def __ge__(self, o):
        return self._cmp(o, "__ge__")

    def __eq__(self, o):  # type: ignore[override]
        if o is None:
            return False
        return self._cmp(o, "__eq__")

    def __ne__(self, o):  # type: ignore[override]
        if o is None:
            return True
        return self._cmp(o, "__ne__")

    def __hash__(self):
        return hash(self.t)

    def __bool__(self):
        return bool(lift(self.t != 0))

    def __float__(self):
        return self  # type: ignore[return-value]

    def __format__(self, spec):
        return str(self.t)

    def __repr__(self):
        return f"SymReal({self.t})"

    def item(self):
        return self


_UF: dict = {}


def uf(name, *sorts):
    key = (name,) + tuple(str(s) for s in sorts)
    if key not in _UF:
        _UF[key] = z3.Function(name, *sorts)
    return _UF[key]


def sym_int(name: str, lo: Optional[int] = None, hi=None) -> SymInt:
    v = SymInt(z3.Int(name))
    if _CTX is not None:
        if lo is not None:
            _CTX.assume(v >= lo)
        if hi is not None:
            _CTX.assume(v <= hi)
    return v


def sym_min(*xs):
    if len(xs) == 1:
        xs = tuple(xs[0])
    r = xs[0]
    for x in xs[1:]:
        if isinstance(r, (SymInt, SymReal)) or isinstance(x, (SymInt, SymReal)):
            a, b = as_z3_num(r), as_z3_num(x)
            r = lift(z3.If(b < a, b, a))
        else:
            r = min(r, x)
    return r


def sym_max(*xs):
    if len(xs) == 1:
        xs = tuple(xs[0])
    r = xs[0]
    for x in xs[1:]:
        if isinstance(r, (SymInt, SymReal)) or isinstance(x, (SymInt, SymReal)):
            a, b = as_z3_num(r), as_z3_num(x)
            r = lift(z3.If(b > a, b, a))
        else:
            r = max(r, x)
    return r


# --------------------------------------------------------------------------------------------
# explorer


class PathResult:
    def __init__(self, pc, outcome, value, events, obligations, decisions, solver_s, solver_calls):
        self.pc = pc
        self.outcome = outcome  # "return" | "raise" | "unsupported"
        self.value = value  # return value, or exception instance
        self.events = events
        self.obligations = obligations
        self.decisions = decisions
        self.solver_s = solver_s
        self.solver_calls = solver_calls

    def __repr__(self):
        return f"<Path {self.outcome} {type(self.value).__name__} dec={self.decisions}>"


def explore(
    thunk: Callable[[], Any],
    post: Optional[Callable[["Context", str, Any], None]] = None,
    max_paths: int = 512,
    timeout_ms: int = 10000,
    expected_exceptions: tuple = (Exception,),
    prefix0: Optional[List[bool]] = None,
) -> List[PathResult]:
    """Run ``thunk`` on every feasible path.  ``post(ctx, outcome, value)`` is called at the end
    of every path (inside the path's context) to emit obligations.
    ``prefix0`` restricts the exploration to the sub-tree in which the first len(prefix0) genuine forks take the given
    choices (the 2^d prefixes of length d together cover every path; paths with fewer forks are explored by several shards)."""
    global _CTX
    results: List[PathResult] = []
    work: List[List[bool]] = [list(prefix0 or [])]
    n = 0
    while work:
        prefix = work.pop()
        n += 1
        if n > max_paths:
            raise PathBudgetExceeded(f"more than {max_paths} paths")
        c = Context(prefix, timeout_ms=timeout_ms)
        old = _CTX
        _CTX = c
        try:
            try:
                v = thunk()
                outcome = "return"
            except AssumptionFailed:
                work.extend(c.pending)
                continue
            except Unsupported as e:
                v, outcome = e, "unsupported"
            except z3.Z3Exception as e:  # a solver failure is never an outcome of the code under analysis
                v, outcome = Unsupported(f"z3 exception: {e}"), "unsupported"
            except PathEnd as e:
                v, outcome = e, "cut"
            except RecursionError as e:
                v, outcome = Unsupported(f"recursion: {e}"), "unsupported"
            except expected_exceptions as e:  # the code under analysis raised
                v, outcome = e, "raise"
                import traceback as _tb
                try:
                    e.__shadow_tb__ = "".join(_tb.format_tb(e.__traceback__)[-6:])
                except Exception:
                    pass
            if post is not None and outcome not in ("unsupported", "cut"):
                try:
                    post(c, outcome, v)
                except AssumptionFailed:
                    work.extend(c.pending)
                    continue
                except Unsupported as e:
                    v, outcome = e, "unsupported"
            results.append(
                PathResult(list(c.pc), outcome, v, c.events, c.obligations, list(c.decisions), c.solver_s, c.solver_calls)
            )
            work.extend(c.pending)
        finally:
            _CTX = old
    return results
