"""Operations on SymTensor (the model of the torch kernels the repository calls).

Every model here is *trusted but validated*: engine/conformance.py evaluates each of them on random
concrete shapes/values and compares with real torch (shape, dtype, values, aliasing)."""
from __future__ import annotations

import builtins
import itertools
from typing import Sequence

import z3

from . import sym
from . import symtensor as T
from .sym import SymBool, SymInt, SymReal, Unsupported, as_z3_int, concrete, lift
from .symtensor import Size, Storage, SymTensor, _norm_dim, ix

Scalar = (builtins.int, builtins.float, builtins.bool, SymInt, SymReal, SymBool)


def is_tensor(x):
    return isinstance(x, SymTensor)


# ------------------------------------------------------------------------------------------
# helpers


def dim_eq(a, b):
    """decide (forking if necessary) whether two dimension sizes are equal"""
    if a is b:
        return True
    if isinstance(a, builtins.int) and isinstance(b, builtins.int):
        return a == b
    return bool(a == b)


def is_one(a):
    if isinstance(a, builtins.int):
        return a == 1
    return bool(a == 1)


def broadcast_shapes(*shapes):
    shapes = [Size(s) if not isinstance(s, builtins.int) else Size((s,)) for s in shapes]
    n = max((len(s) for s in shapes), default=0)
    out = []
    for k in range(1, n + 1):
        cur = 1
        for s in shapes:
            if len(s) < k:
                continue
            d = s[-k]
            if isinstance(d, builtins.int) and d < 0:
                raise RuntimeError("Trying to create tensor with negative dimension")
            if isinstance(cur, builtins.int) and cur == 1:
                cur = d
            elif dim_eq(cur, d):
                pass
            elif is_one(d):
                pass
            elif is_one(cur):
                cur = d
            else:
                raise RuntimeError(
                    f"Shape mismatch: objects cannot be broadcast to a single shape ({[tuple(s) for s in shapes]})"
                )
        out.append(cur)
    return Size(reversed(out))


def bidx(shape, idx):
    """index into an operand of ``shape`` broadcast to the rank of ``idx`` (right aligned)"""
    off = len(idx) - len(shape)
    res = []
    for k, s in enumerate(shape):
        i = idx[off + k]
        if isinstance(s, builtins.int):
            res.append(0 if s == 1 else i)
        else:
            res.append(z3.If(ix(s) == 1, z3.IntVal(0), ix(i)))
    return tuple(res)


def to_sort(term, src: T.DType, dst: T.DType):
    if src.kind == dst.kind:
        return term
    if dst.kind == "f":
        if src.kind == "i":
            return z3.ToReal(term)
        return z3.If(term, z3.RealVal(1), z3.RealVal(0))
    if dst.kind == "i":
        if src.kind == "b":
            return z3.If(term, z3.IntVal(1), z3.IntVal(0))
        return z3.ToInt(term)  # float -> int truncation is approximated by floor (documented)
    if dst.kind == "b":
        return term != 0
    raise Unsupported("cast")


def scalar_term(x, dt: T.DType):
    if isinstance(x, (builtins.bool, SymBool)):
        b = sym.as_z3_bool(x)
        return to_sort(b, T.bool_, dt)
    if isinstance(x, (builtins.int, SymInt)):
        t = as_z3_int(x)
        return to_sort(t, T.int64, dt)
    if isinstance(x, (builtins.float, SymReal)):
        t = sym.as_real(x)
        return to_sort(t, T.float64, dt)
    raise TypeError(x)


def scalar_dtype_with(x, tdt: T.DType):
    """result dtype of tensor(dtype tdt) <op> python scalar x"""
    if isinstance(x, (builtins.bool, SymBool)):
        return tdt
    if isinstance(x, (builtins.int, SymInt)):
        return T.int64 if tdt.kind == "b" else tdt
    if tdt.kind == "f":
        return tdt
    return T.DEFAULT_DTYPE


def result_dtype(a, b):
    if is_tensor(a) and is_tensor(b):
        # 0-dim tensors do not participate in promotion within the same category (torch rule)
        if a.dim() == 0 and b.dim() > 0 and a.dtype.kind == b.dtype.kind:
            return b.dtype
        if b.dim() == 0 and a.dim() > 0 and a.dtype.kind == b.dtype.kind:
            return a.dtype
        if a.dim() == 0 and b.dim() > 0 and _cat_lt(a.dtype, b.dtype):
            return b.dtype
        if b.dim() == 0 and a.dim() > 0 and _cat_lt(b.dtype, a.dtype):
            return a.dtype
        return T.promote(a.dtype, b.dtype)
    if is_tensor(a):
        return scalar_dtype_with(b, a.dtype)
    return scalar_dtype_with(a, b.dtype)


def _cat_lt(x, y):
    o = {"b": 0, "i": 1, "f": 2}
    return o[x.kind] < o[y.kind]


def operand(x, dt):
    """(shape, idx->term in dtype dt)"""
    if is_tensor(x):
        e = x.elem_fn()
        if e is None:
            return x.shape, None
        sh, src = x.shape, x.dtype
        return sh, (lambda idx: to_sort(e(bidx(sh, idx)), src, dt))
    t = scalar_term(x, dt)
    return Size(()), (lambda idx: t)


def ewise(fn, *xs, dtype=None, opname="ewise"):
    ts = [x for x in xs if is_tensor(x)]
    if not ts:
        raise TypeError("no tensor operand")
    if dtype is None:
        dt = ts[0].dtype
        r = xs[0]
        for y in xs[1:]:
            dt = result_dtype(_Fake(dt, r), y) if not is_tensor(r) else result_dtype(r, y)
            r = _Fake(dt, r if is_tensor(r) else y)
        cdt = dt
    else:
        cdt = dtype
    return _ewise(fn, xs, cdt, cdt)


class _Fake(SymTensor):
    def __init__(self, dt, like):
        self.dtype = dt
        self._shape = like.shape if is_tensor(like) else Size(())

    def dim(self):
        return len(self._shape)


def _ewise(fn, xs, compute_dt, out_dt):
    ops = [operand(x, compute_dt) for x in xs]
    shape = broadcast_shapes(*[o[0] for o in ops])
    if any(o[1] is None for o in ops):
        elem = None
    else:
        fs = [o[1] for o in ops]
        elem = lambda idx: fn(*[f(idx) for f in fs])  # noqa: E731
    rg = any(is_tensor(x) and x.requires_grad for x in xs)
    t = SymTensor.from_elem(shape, out_dt, elem)
    t.requires_grad = rg
    return t


def binop(fn, a, b, out_kind=None, force_float=False, opname="op"):
    dt = result_dtype(a, b) if (is_tensor(a) or is_tensor(b)) else None
    cdt = dt
    if force_float and dt.kind != "f":
        cdt = T.DEFAULT_DTYPE
    odt = cdt if out_kind is None else T.bool_
    return _ewise(fn, (a, b), cdt, odt)


def z_floordiv(a, b):
    if a.sort() == z3.RealSort() or b.sort() == z3.RealSort():
        f = sym.uf("floor", z3.RealSort(), z3.RealSort())
        return f(sym.as_real(a) / sym.as_real(b))
    return sym._floordiv(a, b)


def z_mod(a, b):
    if a.sort() == z3.RealSort() or b.sort() == z3.RealSort():
        a, b = sym.as_real(a), sym.as_real(b)
        return a - b * z_floordiv(a, b)
    return sym._mod(a, b)


def z_truncdiv(a, b):
    # C-style: truncation toward zero
    if a.sort() == z3.IntSort():
        q = sym._floordiv(a, b)
        return z3.If(z3.And(a - b * q != 0, (a < 0) != (b < 0)), q + 1, q)
    f = sym.uf("trunc", z3.RealSort(), z3.RealSort())
    return f(a / b)


def z_fmod(a, b):
    return a - b * z_truncdiv(a, b)


SQRT_SQUARE_AXIOM = [True]  # contracts that never need sqrt(x)^2 = x switch the (non-linear) half of the axiom off: every query gets cheaper


def real_uf(name):
    f = sym.uf(name, z3.RealSort(), z3.RealSort())
    if name == "sqrt":
        def g(x):
            y = f(x)
            if sym._CTX is not None:  # the two facts about sqrt the proofs use, instantiated at the term
                sym._CTX.add_axiom(z3.Implies(x >= 0, z3.And(y * y == x, y >= 0) if SQRT_SQUARE_AXIOM[0] else y >= 0))
            return y
        return g
    return lambda x: f(x)


# ------------------------------------------------------------------------------------------
# factories


def _shape_args(args):
    if len(args) == 1 and isinstance(args[0], (tuple, list)):
        args = tuple(args[0])
    out = []
    for a in args:
        if is_tensor(a):
            raise Unsupported("tensor as size")
        if isinstance(a, builtins.int):
            if a < 0:
                raise RuntimeError(f"Trying to create tensor with negative dimension {a}")
        elif isinstance(a, SymInt):
            if bool(a < 0):
                raise RuntimeError("Trying to create tensor with negative dimension")
        else:
            raise TypeError(f"size must be int, got {type(a).__name__}")
        out.append(a)
    return Size(out)


def full(shape, value, dtype=None, device=None, requires_grad=False, **kw):
    shape = _shape_args((shape,)) if isinstance(shape, (tuple, list)) else _shape_args((shape,))
    if dtype is None:
        dtype = T.bool_ if isinstance(value, builtins.bool) else (T.int64 if isinstance(value, (builtins.int, SymInt)) else T.DEFAULT_DTYPE)
    t = scalar_term(value, dtype)
    return SymTensor.from_elem(shape, dtype, lambda idx: t)


def zeros(*size, dtype=None, device=None, requires_grad=False, out=None, **kw):
    return full(_shape_args(size), 0.0 if dtype is None or dtype.kind == "f" else 0, dtype=dtype or T.DEFAULT_DTYPE)


def ones(*size, dtype=None, device=None, requires_grad=False, **kw):
    return full(_shape_args(size), 1.0 if dtype is None or dtype.kind == "f" else 1, dtype=dtype or T.DEFAULT_DTYPE)


def empty(*size, dtype=None, device=None, requires_grad=False, **kw):
    shape = _shape_args(size)
    dtype = dtype or T.DEFAULT_DTYPE
    f = T.fresh_fun("empty", len(shape), T.z3sort(dtype))
    return SymTensor.from_elem(shape, dtype, lambda idx: f(*[ix(i) for i in idx]))


def zeros_like(x, dtype=None, **kw):
    return full(x.shape, 0, dtype=dtype or x.dtype)


def ones_like(x, dtype=None, **kw):
    return full(x.shape, 1, dtype=dtype or x.dtype)


def empty_like(x, dtype=None, **kw):
    return empty(*x.shape, dtype=dtype or x.dtype)


def full_like(x, value, dtype=None, **kw):
    return full(x.shape, value, dtype=dtype or x.dtype)


def eye(n, m=None, dtype=None, device=None, **kw):
    m = n if m is None else m
    shape = _shape_args((n, m))
    dtype = dtype or T.DEFAULT_DTYPE
    one, zero = scalar_term(1, dtype), scalar_term(0, dtype)
    return SymTensor.from_elem(shape, dtype, lambda idx: z3.If(ix(idx[0]) == ix(idx[1]), one, zero))


def arange(*args, dtype=None, device=None, **kw):
    if len(args) == 1:
        start, end, step = 0, args[0], 1
    elif len(args) == 2:
        start, end, step = args[0], args[1], 1
    else:
        start, end, step = args
    if any(isinstance(a, (builtins.float, SymReal)) for a in (start, end, step)):
        raise Unsupported("float arange")
    if dtype is None:
        dtype = T.int64
    cs = concrete(step) if not isinstance(step, builtins.int) else step
    if cs is None:
        raise Unsupported("symbolic arange step")
    if cs == 0:
        raise RuntimeError("step must be nonzero")
    if cs == 1:
        n = end - start
    else:
        n = (end - start + (cs - (1 if cs > 0 else -1))) // cs
    if not isinstance(n, builtins.int):
        if bool(n < 0):
            raise RuntimeError("upper bound and larger bound inconsistent with step sign")
    elif n < 0:
        raise RuntimeError("upper bound and larger bound inconsistent with step sign")
    s0 = as_z3_int(start)
    return SymTensor.from_elem((n,), dtype, lambda idx: to_sort(s0 + ix(idx[0]) * cs, T.int64, dtype))


def tensor(data, dtype=None, device=None, requires_grad=False, **kw):
    if is_tensor(data):
        return clone(data) if dtype is None else to(clone(data), dtype)
    if isinstance(data, Scalar):
        if dtype is None:
            dtype = T.bool_ if isinstance(data, (builtins.bool, SymBool)) else (T.int64 if isinstance(data, (builtins.int, SymInt)) else T.DEFAULT_DTYPE)
        t = scalar_term(data, dtype)
        return SymTensor.from_elem((), dtype, lambda idx: t)
    if isinstance(data, (list, tuple)):
        items = [tensor(d, dtype=dtype) for d in data]
        if not items:
            return full((0,), 0.0, dtype=dtype or T.DEFAULT_DTYPE)
        return stack(items, 0)
    raise Unsupported(f"torch.tensor({type(data).__name__})")


def randn(*size, dtype=None, device=None, generator=None, **kw):
    shape = _shape_args(size)
    dtype = dtype or T.DEFAULT_DTYPE
    f = T.fresh_fun("randn", len(shape), z3.RealSort())
    t = SymTensor.from_elem(shape, dtype, lambda idx: f(*[ix(i) for i in idx]), label="noise")
    sym.ctx().event("noise", t)
    return t


rand = randn


# ------------------------------------------------------------------------------------------
# views


def unsqueeze(x, dim):
    n = x.dim() + 1
    d = _norm_dim(dim, n)
    shape = x.shape[:d] + (1,) + x.shape[d:]
    return x._view(shape, lambda idx: idx[:d] + idx[d + 1:], lambda v: (z3.BoolVal(True), v[:d] + (z3.IntVal(0),) + v[d:]), contiguous=x._contig)


def squeeze(x, dim=None):
    if dim is None:
        dims = [k for k, s in enumerate(x.shape) if is_one(s)]
    else:
        ds = dim if isinstance(dim, (tuple, list)) else [dim]
        dims = [k for k in (_norm_dim(d, x.dim()) for d in ds) if x.dim() and is_one(x.shape[k])]
    if not dims:
        return x._view(x.shape, lambda idx: idx, lambda v: (z3.BoolVal(True), v), contiguous=x._contig)
    keep = [k for k in range(x.dim()) if k not in dims]
    shape = Size(x.shape[k] for k in keep)
    n = x.dim()

    def fwd(idx):
        full_ = [z3.IntVal(0)] * n
        for j, k in enumerate(keep):
            full_[k] = idx[j]
        return tuple(full_)

    return x._view(shape, fwd, lambda v: (z3.BoolVal(True), tuple(v[k] for k in keep)), contiguous=x._contig)


def permute(x, *dims):
    if len(dims) == 1 and isinstance(dims[0], (tuple, list)):
        dims = tuple(dims[0])
    n = x.dim()
    ds = [_norm_dim(d, n) for d in dims]
    if sorted(ds) != list(range(n)):
        raise RuntimeError("permute(sparse_coo): number of dimensions in the tensor input does not match the length of the desired ordering of dimensions")
    shape = Size(x.shape[d] for d in ds)
    invp = [ds.index(k) for k in range(n)]

    def fwd(idx):
        return tuple(idx[invp[k]] for k in range(n))

    return x._view(shape, fwd, lambda v: (z3.BoolVal(True), tuple(v[d] for d in ds)), contiguous=(ds == list(range(n)) and x._contig))


def transpose(x, d0, d1):
    n = x.dim()
    a, b = _norm_dim(d0, n), _norm_dim(d1, n)
    p = list(range(n))
    p[a], p[b] = p[b], p[a]
    return permute(x, *p)


def expand(x, *sizes):
    if len(sizes) == 1 and isinstance(sizes[0], (tuple, list)):
        sizes = tuple(sizes[0])
    sizes = list(sizes)
    off = len(sizes) - x.dim()
    if off < 0:
        raise RuntimeError(f"expand: the number of sizes provided ({len(sizes)}) must be greater or equal to the number of dimensions in the tensor ({x.dim()})")
    out = []
    for k, s in enumerate(sizes):
        if k < off:
            if (isinstance(s, builtins.int) and s == -1):
                raise RuntimeError("expand: -1 not allowed in leading, non-existing dimension")
            out.append(s)
            continue
        d = x.shape[k - off]
        if isinstance(s, builtins.int) and s == -1:
            out.append(d)
        elif dim_eq(s, d):
            out.append(d)
        elif is_one(d):
            out.append(s)
        else:
            raise RuntimeError(f"The expanded size of the tensor ({T._fmt(s)}) must match the existing size ({T._fmt(d)}) at non-singleton dimension {k}.")
    shape = Size(out)
    xs = x.shape
    return x._view(shape, lambda idx: bidx(xs, idx), None, contiguous=False)


def expand_as(x, other):
    return expand(x, *other.shape)


def diagonal(x, offset=0, dim1=0, dim2=1):
    if offset != 0:
        raise Unsupported("diagonal offset")
    n = x.dim()
    a, b = _norm_dim(dim1, n), _norm_dim(dim2, n)
    if a == b:
        raise RuntimeError("diagonal dimensions cannot be identical")
    rest = [k for k in range(n) if k not in (a, b)]
    m = sym.sym_min(x.shape[a], x.shape[b])
    shape = Size([x.shape[k] for k in rest] + [m])

    def fwd(idx):
        full_ = [None] * n
        for j, k in enumerate(rest):
            full_[k] = idx[j]
        full_[a] = idx[-1]
        full_[b] = idx[-1]
        return tuple(full_)

    def inv(v):
        return ix(v[a]) == ix(v[b]), tuple(v[k] for k in rest) + (v[a],)

    return x._view(shape, fwd, inv, contiguous=False)


def _slice_params(sl, n):
    """python slice semantics on a dimension of (symbolic) size n -> (start, length, step)"""
    step = 1 if sl.step is None else sl.step
    cs = concrete(step) if not isinstance(step, builtins.int) else step
    if cs is None:
        raise Unsupported("symbolic slice step")
    if cs <= 0:
        raise ValueError("step must be greater than zero")

    def clamp(v, default):
        if v is None:
            return default
        if is_tensor(v):
            raise Unsupported("tensor slice bound")
        if isinstance(v, builtins.int) and isinstance(n, builtins.int):
            if v < 0:
                v += n
            return builtins.min(builtins.max(v, 0), n)
        vz, nz = as_z3_int(v), as_z3_int(n)
        w = z3.If(vz < 0, vz + nz, vz)
        return lift(z3.If(w < 0, 0, z3.If(w > nz, nz, w)))

    start = clamp(sl.start, 0)
    stop = clamp(sl.stop, n)
    if isinstance(start, builtins.int) and isinstance(stop, builtins.int):
        length = builtins.max(0, (stop - start + cs - 1) // cs)
    else:
        d = as_z3_int(stop) - as_z3_int(start)
        length = lift(z3.If(d <= 0, 0, (d + cs - 1) / cs))
    return start, length, cs


def narrow(x, dim, start, length):
    d = _norm_dim(dim, x.dim())
    n = x.shape[d]
    if not (isinstance(start, builtins.int) and isinstance(length, builtins.int) and isinstance(n, builtins.int)):
        if bool(lift(z3.Or(as_z3_int(start) < 0, as_z3_int(length) < 0, as_z3_int(start) + as_z3_int(length) > as_z3_int(n)))):
            raise RuntimeError("start + length exceeds dimension size")
    elif start < 0 or length < 0 or start + length > n:
        raise RuntimeError(f"start ({start}) + length ({length}) exceeds dimension size ({n}).")
    return _slice_view(x, d, start, length, 1)


def _slice_view(x, d, start, length, step):
    shape = x.shape[:d] + (length,) + x.shape[d + 1:]
    s0 = as_z3_int(start)

    def fwd(idx):
        return idx[:d] + (s0 + ix(idx[d]) * step,) + idx[d + 1:]

    def inv(v):
        off = ix(v[d]) - s0
        if step == 1:
            return off >= 0, v[:d] + (off,) + v[d + 1:]
        return z3.And(off >= 0, off % step == 0), v[:d] + (off / step,) + v[d + 1:]

    full_range = isinstance(start, builtins.int) and start == 0 and step == 1 and (length is x.shape[d] or (isinstance(length, builtins.int) and isinstance(x.shape[d], builtins.int) and length == x.shape[d]))
    return x._view(shape, fwd, inv, contiguous=x._contig and (full_range or d == 0 and step == 1))


def select(x, dim, index):
    d = _norm_dim(dim, x.dim())
    n = x.shape[d]
    if isinstance(index, builtins.int) and isinstance(n, builtins.int):
        if index < -n or index >= n:
            raise IndexError(f"index {index} is out of bounds for dimension {d} with size {n}")
        i0 = z3.IntVal(index % n)
    else:
        iz, nz = as_z3_int(index), as_z3_int(n)
        if bool(lift(z3.Or(iz < -nz, iz >= nz))):
            raise IndexError(f"index {index} is out of bounds for dimension {d} with size {n}")
        i0 = z3.If(iz < 0, iz + nz, iz)
    shape = x.shape[:d] + x.shape[d + 1:]
    return x._view(shape, lambda idx: idx[:d] + (i0,) + idx[d:], lambda v: (ix(v[d]) == i0, v[:d] + v[d + 1:]), contiguous=x._contig and d == 0)


def _flat_index(idx, shape):
    r = z3.IntVal(0)
    for i, s in zip(idx, shape):
        r = r * ix(s) + ix(i)
    return r


def _unflat_index(flat, shape):
    out = []
    rem = flat
    for s in reversed(shape[1:]):
        out.append(rem % ix(s))
        rem = rem / ix(s)
    if len(shape):
        out.append(rem)
    return tuple(reversed(out))


def _resolve_view_shape(x, shape):
    shape = list(shape)
    if len(shape) == 1 and isinstance(shape[0], (tuple, list)):
        shape = list(shape[0])
    neg = [k for k, s in enumerate(shape) if isinstance(s, builtins.int) and s == -1]
    total = x.numel()
    if len(neg) > 1:
        raise RuntimeError("only one dimension can be inferred")
    if neg:
        known = 1
        for k, s in enumerate(shape):
            if k != neg[0]:
                known = known * s
        if isinstance(total, builtins.int) and isinstance(known, builtins.int):
            if known == 0 or total % known:
                raise RuntimeError(f"shape '{shape}' is invalid for input of size {total}")
            shape[neg[0]] = total // known
        else:
            kz, tz = as_z3_int(known), as_z3_int(total)
            if bool(lift(z3.Or(kz == 0, tz % kz != 0))):
                raise RuntimeError(f"shape '{shape}' is invalid for input of size {total}")
            shape[neg[0]] = lift(tz / kz)
    else:
        new_total = 1
        for s in shape:
            new_total = new_total * s
        if not dim_eq(new_total, total):
            raise RuntimeError(f"shape '{[T._fmt(s) for s in shape]}' is invalid for input of size {T._fmt(total)}")
    return Size(shape)


def reshape(x, *shape, _view=False):
    ns = _resolve_view_shape(x, shape)
    os_ = x.shape
    # cheap special cases keep index terms linear: only singleton insertion/removal
    a = [s for s in os_ if not (isinstance(s, builtins.int) and s == 1)]
    b = [s for s in ns if not (isinstance(s, builtins.int) and s == 1)]
    if len(a) == len(b) and builtins.all(p is q or (isinstance(p, builtins.int) and isinstance(q, builtins.int) and p == q) for p, q in zip(a, b)):
        keep_old = [k for k, s in enumerate(os_) if not (isinstance(s, builtins.int) and s == 1)]
        keep_new = [k for k, s in enumerate(ns) if not (isinstance(s, builtins.int) and s == 1)]

        def fwd(idx):
            full_ = [z3.IntVal(0)] * len(os_)
            for ko, kn in zip(keep_old, keep_new):
                full_[ko] = idx[kn]
            return tuple(full_)

        def inv(v):
            full_ = [z3.IntVal(0)] * len(ns)
            for ko, kn in zip(keep_old, keep_new):
                full_[kn] = v[ko]
            return z3.BoolVal(True), tuple(full_)

        base = x if x._contig or _view else contiguous(x)
        return base._view(ns, fwd, inv, contiguous=True)
    if not x._contig:
        if _view:
            # torch decides by strides; the model does not track them: undecided, never guessed
            raise Unsupported("view() of a tensor that may be non-contiguous (stride compatibility is not modelled)")
        x = contiguous(x)

    def fwd(idx):
        return _unflat_index(_flat_index(idx, ns), os_)

    def inv(v):
        return z3.BoolVal(True), _unflat_index(_flat_index(v, os_), ns)

    return x._view(ns, fwd, inv, contiguous=True)


def view(x, *shape):
    if len(shape) == 1 and isinstance(shape[0], T.DType):
        raise Unsupported("view(dtype)")
    return reshape(x, *shape, _view=True)


def flatten(x, start_dim=0, end_dim=-1):
    n = x.dim()
    if n == 0:
        return reshape(x, 1)
    a, b = _norm_dim(start_dim, n), _norm_dim(end_dim, n)
    mid = 1
    for s in x.shape[a:b + 1]:
        mid = mid * s
    return reshape(x, *(x.shape[:a] + (mid,) + x.shape[b + 1:]))


def unflatten(x, dim, sizes):
    d = _norm_dim(dim, x.dim())
    return reshape(x, *(x.shape[:d] + tuple(sizes) + x.shape[d + 1:]))


def contiguous(x):
    if x._contig:
        return x
    return clone(x)


def clone(x, memory_format=None):
    e = x.elem_fn()
    t = SymTensor.from_elem(x.shape, x.dtype, e)
    t.requires_grad = x.requires_grad
    return t


def detach(x):
    t = x._view(x.shape, lambda idx: idx, lambda v: (z3.BoolVal(True), v), contiguous=x._contig)
    t.requires_grad = False
    return t


def to(x, *args, **kw):
    dtype = kw.get("dtype")
    for a in args:
        if isinstance(a, T.DType):
            dtype = a
        elif is_tensor(a):
            dtype = a.dtype
    if dtype is None or dtype is x.dtype:
        return x
    e = x.elem_fn()
    src = x.dtype
    t = SymTensor.from_elem(x.shape, dtype, None if e is None else (lambda idx: to_sort(e(idx), src, dtype)))
    t.requires_grad = x.requires_grad
    return t


# ------------------------------------------------------------------------------------------
# indexing (basic + advanced)


def getitem(x, index):
    if not isinstance(index, tuple):
        index = (index,)
    index = list(index)
    # bool / list conversions
    index = [tensor(i, dtype=T.int64) if isinstance(i, list) else i for i in index]
    n_specified = sum(1 for i in index if i is not None and i is not Ellipsis)
    if sum(1 for i in index if i is Ellipsis) > 1:
        raise IndexError("an index can only have a single ellipsis ('...')")
    if n_specified > x.dim():
        raise IndexError(f"too many indices for tensor of dimension {x.dim()}")
    if Ellipsis in index:
        k = index.index(Ellipsis)
        index[k:k + 1] = [slice(None)] * (x.dim() - n_specified)
    else:
        index += [slice(None)] * (x.dim() - n_specified)
    # first pass: basic indices as views
    cur = x
    d = 0
    tens = []  # (dim in cur, tensor)
    for i in index:
        if i is None:
            cur = unsqueeze(cur, d)
            d += 1
        elif isinstance(i, slice) or type(i).__name__ == "SymSlice":
            start, length, step = _slice_params(i, cur.shape[d])
            if not (i.start is None and i.stop is None and i.step is None):
                cur = _slice_view(cur, d, start, length, step)
            d += 1
        elif isinstance(i, (builtins.int, SymInt)) and not isinstance(i, builtins.bool):
            cur = select(cur, d, i)
        elif is_tensor(i):
            if i.dtype.kind == "b":
                raise Unsupported("boolean mask index")
            if i.dtype.kind != "i":
                raise IndexError("tensors used as indices must be long, int, byte or bool tensors")
            if i.dim() == 0:
                pass
            tens.append((d, i))
            d += 1
        else:
            raise IndexError(f"unsupported index {type(i).__name__}")
    if not tens:
        return cur
    return _advanced(cur, tens)


def _advanced(x, tens):
    dims = [d for d, _ in tens]
    bshape = broadcast_shapes(*[t.shape for _, t in tens])
    adjacent = dims == list(range(dims[0], dims[0] + len(dims)))
    n = x.dim()
    other = [k for k in range(n) if k not in dims]
    if adjacent:
        pos = dims[0]
    else:
        pos = 0
    before = [k for k in other if k < pos] if adjacent else []
    after = [k for k in other if k not in before]
    shape = Size([x.shape[k] for k in before] + list(bshape) + [x.shape[k] for k in after])
    nb = len(bshape)
    e = x.elem_fn()
    idx_fns = []
    xs = x.shape
    for d, t in tens:
        te, tsh, size = t.elem_fn(), t.shape, xs[d]
        if te is None:
            raise Unsupported("opaque index tensor")
        # bounds: every entry must be in [-size, size)
        lazy = _check_index_bounds(t, size)
        idx_fns.append((d, te, tsh, size, lazy, t))

    def elem(idx):
        bi = idx[len(before):len(before) + nb]
        full_ = [None] * n
        for j, k in enumerate(before):
            full_[k] = idx[j]
        for j, k in enumerate(after):
            full_[k] = idx[len(before) + nb + j]
        for d, te, tsh, size, lazy, t in idx_fns:
            ti = bidx(tsh, bi)
            v = te(ti)
            if lazy:
                sym.ctx().add_axiom(z3.Implies(t.in_bounds(ti), z3.And(v >= -ix(size), v < ix(size))))
            full_[d] = z3.If(v < 0, v + ix(size), v)
        return e(tuple(full_))

    return SymTensor.from_elem(shape, x.dtype, None if e is None else elem)


def _check_index_bounds(t, size):
    """torch raises IndexError iff some index entry is outside [-size, size).  Returns True when the
    in-range fact had to be *assumed* on this path (then it is instantiated lazily at every read)."""
    c = sym.ctx()
    if builtins.all(isinstance(d, builtins.int) for d in t.shape) and t.numel() <= 4:
        # small concrete index tensor: decide on the actual entries (quantifier-free, consistent across calls)
        conds = []
        for pos in itertools.product(*[range(d) for d in t.shape]):
            v = t.at(*[z3.IntVal(p) for p in pos])
            conds.append(z3.Or(v < -ix(size), v >= ix(size)))
        if c.decide(z3.Or(*conds) if conds else z3.BoolVal(False)):
            raise IndexError("index out of range in self")
        return False
    ks = [z3.Int(c.fresh_name(f"k{j}!idx")) for j in range(t.dim())]
    inb = t.in_bounds(ks)
    v = t.at(*ks)
    bad = z3.And(inb, z3.Or(v < -ix(size), v >= ix(size)))
    f = c.feasible(bad)
    if f is False:
        return False
    any_bad = z3.Bool(c.fresh_name("index_out_of_range"))
    if c.decide(any_bad):
        c.assume(bad)
        raise IndexError("index out of range in self")
    return True


def setitem(x, index, value):
    v = getitem(x, index)
    if not is_tensor(v):
        raise Unsupported("setitem on non-view")
    if v.storage is not x.storage:
        raise Unsupported("setitem with advanced index")
    return copy_(v, value)


# ------------------------------------------------------------------------------------------
# in-place kernels


def copy_(x, src):
    dt = x.dtype
    sh, f = operand(src, dt)
    broadcast_to = broadcast_shapes(sh, x.shape)
    if not _same_shape(broadcast_to, x.shape):
        raise RuntimeError("output with shape doesn't match the broadcast shape")
    if f is None:
        x.storage.elem = None
        sym.ctx().event("inplace", {"storage": x.storage.id, "owner": x.storage.owner, "label": x.storage.label, "op": "copy_"})
        return x
    return x._write(lambda idx: f(idx), "copy_")


def _same_shape(a, b):
    if len(a) != len(b):
        return False
    return builtins.all(dim_eq(p, q) for p, q in zip(a, b))


def inplace(fn, x, *others, what="inplace", force_float=False):
    dt = x.dtype
    if builtins.any(is_tensor(o) and _cat_lt(dt, o.dtype) and o.dim() > 0 for o in others):
        raise RuntimeError(f"result type {others[0].dtype} can't be cast to the desired output type {dt}")
    ops = [operand(o, dt) for o in others]
    bs = broadcast_shapes(x.shape, *[o[0] for o in ops])
    if not _same_shape(bs, x.shape):
        raise RuntimeError(f"output with shape {x.shape} doesn't match the broadcast shape {bs}")
    cur = x.elem_fn()
    if cur is None or builtins.any(o[1] is None for o in ops):
        x.storage.elem = None
        sym.ctx().event("inplace", {"storage": x.storage.id, "owner": x.storage.owner, "label": x.storage.label, "op": what})
        x.storage.version += 1
        return x
    fs = [o[1] for o in ops]
    return x._write(lambda idx: fn(cur(idx), *[f(idx) for f in fs]), what)


# ------------------------------------------------------------------------------------------
# joins


def cat(tensors, dim=0, out=None):
    tensors = [t for t in tensors]
    if not tensors:
        raise RuntimeError("torch.cat(): expected a non-empty list of Tensors")
    # legacy: 1-D empty tensors are skipped
    ts = [t for t in tensors if not (t.dim() == 1 and isinstance(t.shape[0], builtins.int) and t.shape[0] == 0)] or tensors[:1]
    n = ts[0].dim()
    d = _norm_dim(dim, n)
    dt = ts[0].dtype
    for t in ts[1:]:
        if t.dim() != n:
            raise RuntimeError(f"Tensors must have same number of dimensions: got {n} and {t.dim()}")
        for k in range(n):
            if k != d and not dim_eq(t.shape[k], ts[0].shape[k]):
                raise RuntimeError(f"Sizes of tensors must match except in dimension {d}. Expected size {T._fmt(ts[0].shape[k])} but got size {T._fmt(t.shape[k])}")
        dt = T.promote(dt, t.dtype)
    total = 0
    offs = []
    for t in ts:
        offs.append(total)
        total = total + t.shape[d]
    shape = ts[0].shape[:d] + (total,) + ts[0].shape[d + 1:]
    es = [t.elem_fn() for t in ts]
    if builtins.any(e is None for e in es):
        return SymTensor.from_elem(shape, dt, None)
    srcs = [t.dtype for t in ts]

    def elem2(idx):
        # first segment whose upper end exceeds idx
        r = to_sort(es[-1](idx[:d] + (ix(idx[d]) - as_z3_int(offs[-1]),) + idx[d + 1:]), srcs[-1], dt)
        for k in range(len(es) - 2, -1, -1):
            hi = as_z3_int(offs[k + 1])
            loc = idx[:d] + (ix(idx[d]) - as_z3_int(offs[k]),) + idx[d + 1:]
            r = z3.If(ix(idx[d]) < hi, to_sort(es[k](loc), srcs[k], dt), r)
        return r

    res = SymTensor.from_elem(shape, dt, elem2)
    res.requires_grad = builtins.any(t.requires_grad for t in ts)
    return res


def stack(tensors, dim=0):
    tensors = list(tensors)
    n = tensors[0].dim() + 1
    d = _norm_dim(dim, n)
    return cat([unsqueeze(t, d) for t in tensors], d)


# ------------------------------------------------------------------------------------------
# reductions (SumOver terms)

_SUM = {}
_SUMK = itertools.count()
_DEPTH = [0]


def _bound_var():
    """bound variable of a sum being built: named by the NESTING DEPTH of the construction (a sum built while the body of
    another sum is being evaluated gets a different name, so the inner binder can never capture the outer variable; sums
    that are not nested in each other share names, which makes two constructions of the same sum syntactically identical
    terms — an instantiated fact and a goal then match without any reasoning)"""
    return z3.Int(f"k!sum{_DEPTH[0]}")


def sum_term(n, body_of_k, sort):
    """Σ_{k=0}^{n-1} body(k) as an uninterpreted functional of the lambda (equal bodies = equal sums)."""
    k = _bound_var()
    _DEPTH[0] += 1
    try:
        body = body_of_k(k)
    finally:
        _DEPTH[0] -= 1
    nz = as_z3_int(n)
    cn = concrete(lift(nz))
    if cn is not None and cn <= 8:
        r = None
        for j in range(cn):
            term = z3.substitute(body, (k, z3.IntVal(j)))
            r = term if r is None else r + term
        return r if r is not None else (z3.RealVal(0) if sort == z3.RealSort() else z3.IntVal(0))
    key = str(sort)
    if key not in _SUM:
        _SUM[key] = z3.Function(f"SumOver_{key}", z3.IntSort(), z3.ArraySort(z3.IntSort(), sort), sort)
    return _SUM[key](nz, z3.Lambda([k], body))


def sum_(x, dim=None, keepdim=False, dtype=None):
    if x.dtype.kind == "b":
        odt = T.int64
    else:
        odt = x.dtype
    if dtype is not None:
        odt = dtype
    e = x.elem_fn()
    src = x.dtype
    if dim is None or (isinstance(dim, (tuple, list)) and len(dim) == 0):
        dims = list(range(x.dim()))
    else:
        dims = sorted({_norm_dim(d, x.dim()) for d in (dim if isinstance(dim, (tuple, list)) else [dim])})
    n = x.dim()
    keep = [k for k in range(n) if k not in dims]
    shape = Size([(1 if k in dims else x.shape[k]) for k in range(n)] if keepdim else [x.shape[k] for k in keep])
    if e is None:
        return SymTensor.from_elem(shape, odt, None)
    xs = x.shape
    sort = T.z3sort(odt)

    def elem(idx):
        def rec(pos, partial):
            if pos == len(dims):
                full_ = [None] * n
                if keepdim:
                    for k in keep:
                        full_[k] = idx[k]
                else:
                    for j, k in enumerate(keep):
                        full_[k] = idx[j]
                for k, v in partial.items():
                    full_[k] = v
                return to_sort(e(tuple(full_)), src, odt)
            d = dims[pos]
            return sum_term(xs[d], lambda kk: rec(pos + 1, {**partial, d: kk}), sort)
        # nested sums use distinct bound names
        return _nested_sum(e, idx, dims, keep, keepdim, xs, n, src, odt, sort)

    t = SymTensor.from_elem(shape, odt, elem)
    t.requires_grad = x.requires_grad
    return t


def _nested_sum(e, idx, dims, keep, keepdim, xs, n, src, odt, sort):
    bound = [z3.Int(f"k!sum{_DEPTH[0] + j}") for j in range(len(dims))]
    _DEPTH[0] += len(dims)
    try:
        return _nested_sum_body(e, idx, dims, keep, keepdim, xs, n, src, odt, sort, bound)
    finally:
        _DEPTH[0] -= len(dims)


def _nested_sum_body(e, idx, dims, keep, keepdim, xs, n, src, odt, sort, bound):
    full_ = [None] * n
    if keepdim:
        for k in keep:
            full_[k] = idx[k]
    else:
        for j, k in enumerate(keep):
            full_[k] = idx[j]
    for b, d in zip(bound, dims):
        full_[d] = b
    body = to_sort(e(tuple(full_)), src, odt)
    # innermost first
    for b, d in reversed(list(zip(bound, dims))):
        nz = as_z3_int(xs[d])
        cn = concrete(lift(nz))
        if cn is not None and cn <= 8:
            r = None
            for j in range(cn):
                term = z3.substitute(body, (b, z3.IntVal(j)))
                r = term if r is None else r + term
            body = r if r is not None else (z3.RealVal(0) if sort == z3.RealSort() else z3.IntVal(0))
        else:
            key = str(sort)
            if key not in _SUM:
                _SUM[key] = z3.Function(f"SumOver_{key}", z3.IntSort(), z3.ArraySort(z3.IntSort(), sort), sort)
            body = _SUM[key](nz, z3.Lambda([b], body))
    return body


def matmul(a, b):
    if not (is_tensor(a) and is_tensor(b)):
        raise TypeError("matmul operands must be tensors")
    if a.dim() == 0 or b.dim() == 0:
        raise RuntimeError("both arguments to matmul need to be at least 1D")
    dt = T.promote(a.dtype, b.dtype)
    if a.dtype is not b.dtype and not (a.dtype.symbolic or b.dtype.symbolic):
        raise RuntimeError(f"expected m1 and m2 to have the same dtype, but got: {a.dtype} != {b.dtype}")
    va, vb = a.dim() == 1, b.dim() == 1
    A = unsqueeze(a, 0) if va else a
    B = unsqueeze(b, 1) if vb else b
    if not dim_eq(A.shape[-1], B.shape[-2]):
        raise RuntimeError(f"mat1 and mat2 shapes cannot be multiplied ({A.shape} and {B.shape})")
    batch = broadcast_shapes(A.shape[:-2], B.shape[:-2])
    shape = batch + (A.shape[-2], B.shape[-1])
    ea, eb = A.elem_fn(), B.elem_fn()
    sa, sb = A.shape, B.shape
    nk = A.shape[-1]
    sort = T.z3sort(dt)
    if ea is None or eb is None:
        res = SymTensor.from_elem(shape, dt, None)
    else:
        def elem(idx):
            bi = idx[:-2]
            i, j = idx[-2], idx[-1]
            return sum_term(nk, lambda k: ea(bidx(sa[:-2], bi) + (i, k)) * eb(bidx(sb[:-2], bi) + (k, j)), sort)
        res = SymTensor.from_elem(shape, dt, elem)
    res.requires_grad = a.requires_grad or b.requires_grad
    if va and vb:
        return squeeze(squeeze(res, -1), -1)
    if va:
        return squeeze(res, -2)
    if vb:
        return squeeze(res, -1)
    return res


def opaque_bool_reduce(x, label):
    """torch.any / all / equal on data: an unconstrained boolean (over-approximates every behaviour)
    unless the value is decidable from the symbolic entries."""
    return sym.ctx().fork(label)
