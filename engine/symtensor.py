"""SymTensor: the symbolic tensor model used when the real source of /repo is shadow-executed.

Domains carried simultaneously
  shape  : tuple of int | SymInt (rank concrete)
  dtype  : DType object (concrete torch-like dtypes, or symbolic float dtypes)
  values : storage.elem : base-index tuple -> z3 term (Real / Int / Bool), views carry index maps
  alias  : Storage object (owner label, version counter); in-place kernels write through views
A domain a kernel cannot model is set to *opaque* (fresh uninterpreted function) — never guessed.
"""
from __future__ import annotations

import itertools
from typing import Callable, List, Optional, Sequence, Tuple

import z3

from . import sym
from .sym import SymBool, SymInt, SymReal, Unsupported, as_z3_int, concrete, lift

# ------------------------------------------------------------------------------------------
# dtypes


class DType:
    def __init__(self, name, kind, rank, symbolic=False):
        self.name, self.kind, self.rank, self.symbolic = name, kind, rank, symbolic

    @property
    def is_floating_point(self):
        return self.kind == "f"

    def __repr__(self):
        return f"torch.{self.name}"

    # z3 view (for dtype obligations)
    @property
    def t(self):
        return z3.Const(f"dtype.{self.name}", DT)


DT = z3.DeclareSort("DType")
float16 = half = DType("float16", "f", 5)
float32 = DType("float32", "f", 6)
float64 = double = DType("float64", "f", 7)
int32 = DType("int32", "i", 3)
int64 = long = DType("int64", "i", 4)
uint8 = DType("uint8", "i", 1)
int8 = DType("int8", "i", 1)
int16 = DType("int16", "i", 2)
bool_ = DType("bool", "b", 0)
CONCRETE_DTYPES = [float16, float32, float64, int32, int64, uint8, bool_]
# symbolic float dtypes: the operator's dtype and torch's current default dtype are two
# *unrelated* unknown floating dtypes; a tensor allocated with the default dtype is never provably
# of the operator's dtype.
DEFAULT_DTYPE = DType("<default>", "f", None, symbolic=True)


def sym_dtype(name):
    return DType(name, "f", None, symbolic=True)


def promote(a: DType, b: DType) -> DType:
    if a is b:
        return a
    if a.kind != b.kind:
        order = {"b": 0, "i": 1, "f": 2}
        return a if order[a.kind] > order[b.kind] else b
    if a.symbolic or b.symbolic:
        # two different unknown float dtypes: result is the wider one — unknown
        return DType(f"promote({a.name},{b.name})", "f", None, symbolic=True)
    return a if a.rank >= b.rank else b


def z3sort(dt: DType):
    return {"f": z3.RealSort(), "i": z3.IntSort(), "b": z3.BoolSort()}[dt.kind]


# ------------------------------------------------------------------------------------------
# shapes


class Size(tuple):
    """torch.Size stand-in; entries int | SymInt."""

    def __new__(cls, it=()):
        return super().__new__(cls, tuple(it))

    def numel(self):
        r = 1
        for s in self:
            r = r * s
        return r

    def __add__(self, o):
        return Size(tuple(self) + tuple(o))

    def __radd__(self, o):
        return Size(tuple(o) + tuple(self))

    def __getitem__(self, i):
        r = tuple.__getitem__(self, i)
        return Size(r) if isinstance(i, slice) else r

    def __eq__(self, o):  # type: ignore[override]
        if not isinstance(o, (tuple, list)):
            return False
        if len(o) != len(self):
            return False
        r = True
        for a, b in zip(self, o):
            e = a == b
            if e is False:
                return False
            if e is True:
                continue
            r = e if r is True else (r & e)
        return r

    def __ne__(self, o):  # type: ignore[override]
        e = self.__eq__(o)
        if isinstance(e, bool):
            return not e
        return ~e

    def __hash__(self):
        return tuple.__hash__(self)

    def __repr__(self):
        return "torch.Size([" + ", ".join(_fmt(s) for s in self) + "])"

    __str__ = __repr__


def _fmt(s):
    return str(s.t) if isinstance(s, (SymInt, SymReal)) else repr(s)


# ------------------------------------------------------------------------------------------
# storage / alias domain

_ids = itertools.count(1)


class Storage:
    def __init__(self, elem, owner="local", label="", dtype=None):
        self.id = next(_ids)
        self.elem = elem  # base index tuple -> z3 term, or None (opaque)
        self.owner = owner  # "caller:<param>" | "operator" | "local" | "callee:<fn>"
        self.label = label
        self.version = 0
        self.writes: List[str] = []

    def __repr__(self):
        return f"<Storage {self.id} {self.owner} {self.label} v{self.version}>"


def fresh_fun(name: str, nargs: int, sort):
    nm = sym.ctx().fresh_name(name) if sym._CTX is not None else name
    return z3.Function(nm, *([z3.IntSort()] * nargs), sort)


def ix(x):
    """index component -> z3 Int"""
    return as_z3_int(x)


# ------------------------------------------------------------------------------------------
# the tensor


class SymTensor:
    __array_priority__ = 1000

    def __init__(self, shape, dtype, storage: Storage, fwd=None, inv=None, contiguous=True, base_shape=None,
                 requires_grad=False, sparse=None):
        self._shape = Size(shape)
        self.dtype = dtype
        self.storage = storage
        self._fwd = fwd  # view idx -> base idx   (None = identity)
        self._inv = inv  # base idx -> (cond z3 Bool, view idx)  (None = identity / not writable)
        self._contig = contiguous
        self.requires_grad = requires_grad
        self.grad_fn = None
        self.device = CPU
        self.sparse = sparse
        self.is_sparse = sparse is not None
        self.layout = "strided"

    # -- construction helpers ---------------------------------------------------------------
    @staticmethod
    def fresh(name, shape, dtype=None, owner="caller", opaque=False, constraint=None):
        """fresh symbolic tensor; ``constraint(idx, value) -> z3 Bool`` is a universally quantified
        precondition on the entries, instantiated lazily wherever an entry is read."""
        dtype = dtype or float32
        shape = Size(shape)
        f = fresh_fun(name, len(shape), z3sort(dtype))
        if constraint is None:
            elem = (lambda idx, f=f: f(*[ix(i) for i in idx]))
        else:
            def elem(idx, f=f):
                idx = tuple(idx)
                v = f(*[ix(i) for i in idx])
                inb = z3.And(*[z3.And(ix(i) >= 0, ix(i) < ix(s)) for i, s in zip(idx, shape)]) if idx else z3.BoolVal(True)
                sym.ctx().add_axiom(z3.Implies(inb, constraint(idx, v)))
                return v
        st = Storage(elem, owner=f"{owner}:{name}" if owner == "caller" else owner, label=name)
        st.fun = f  # the uninterpreted entry function (contracts may substitute it, e.g. to differentiate a spec)
        return SymTensor(shape, dtype, st)

    @staticmethod
    def from_elem(shape, dtype, elem, owner="local", label=""):
        return SymTensor(Size(shape), dtype, Storage(elem, owner=owner, label=label))

    # -- basic attributes ---------------------------------------------------------------------
    @property
    def shape(self):
        return self._shape

    def size(self, dim=None):
        if dim is None:
            return self._shape
        return self._shape[_norm_dim(dim, len(self._shape))]

    def dim(self):
        return len(self._shape)

    ndimension = dim

    @property
    def ndim(self):
        return len(self._shape)

    def numel(self):
        return self._shape.numel()

    def nelement(self):
        return self._shape.numel()

    def is_contiguous(self):
        return self._contig

    def is_floating_point(self):
        return self.dtype.kind == "f"

    def is_complex(self):
        return False

    def data_ptr(self):
        return self.storage.id

    @property
    def is_cuda(self):
        return False

    def __len__(self):
        if not self._shape:
            raise TypeError("len() of a 0-d tensor")
        n = self._shape[0]
        c = concrete(n)
        if c is None:
            raise Unsupported("len() of a tensor with symbolic leading dimension (use shape[0])")
        return c

    def __repr__(self):
        return f"SymTensor(shape={self._shape}, dtype={self.dtype}, storage={self.storage.id}:{self.storage.owner})"

    def __format__(self, spec):
        return repr(self)

    __hash__ = object.__hash__

    def __getattr__(self, name):
        # a tensor method the model does not implement: undecided, never an AttributeError of the code under test
        if name.startswith("__") and name.endswith("__"):
            raise AttributeError(name)
        if name in ("representation", "_args", "to_dense", "evaluate_kernel", "_memoize_cache"):
            raise AttributeError(name)  # duck-typing probes of the library (hasattr) must see "not an operator"
        raise Unsupported(f"torch.Tensor.{name} is not modelled")

    # -- value access -------------------------------------------------------------------------
    def at(self, *idx):
        """z3 term of the entry at view index idx (ints / SymInts / z3 Ints)"""
        assert len(idx) == len(self._shape), (idx, self._shape)
        if self.storage.elem is None:
            raise Unsupported(f"value of opaque tensor {self!r} requested")
        b = self._fwd(tuple(idx)) if self._fwd else tuple(idx)
        return self.storage.elem(b)

    def elem_fn(self):
        """a *snapshot* closure idx -> term of the current value"""
        if self.storage.elem is None:
            return None
        e, fwd = self.storage.elem, self._fwd
        if fwd is None:
            return e
        return lambda idx: e(fwd(tuple(idx)))

    def in_bounds(self, idx):
        return z3.And(*[z3.And(ix(i) >= 0, ix(i) < ix(s)) for i, s in zip(idx, self._shape)]) if idx else z3.BoolVal(True)

    # -- views ----------------------------------------------------------------------------------
    def _view(self, shape, fwd, inv, contiguous=False):
        f0, i0 = self._fwd, self._inv
        if f0 is None:
            nf = fwd
        else:
            nf = lambda idx: f0(fwd(idx))  # noqa: E731
        if inv is None:
            ni = None
        elif i0 is None and f0 is None:
            ni = inv
        elif i0 is None:
            ni = None
        else:
            def ni(b):
                c1, v1 = i0(b)
                c2, v2 = inv(v1)
                return z3.And(c1, c2), v2
        t = SymTensor(shape, self.dtype, self.storage, nf, ni, contiguous, requires_grad=self.requires_grad)
        return t

    def _write(self, newval: Callable, what: str):
        """in-place write of the whole view: storage[b] := newval(view idx) where b is covered"""
        st = self.storage
        sym.ctx().event("inplace", {"storage": st.id, "owner": st.owner, "label": st.label, "op": what})
        old = st.elem
        st.version += 1
        st.writes.append(what)
        if old is None:
            return self
        if self._fwd is None:
            st.elem = lambda b: newval(tuple(b))
            return self
        inv = self._inv
        if inv is None:
            raise Unsupported(f"in-place write through a non-invertible view ({what})")
        shape = self._shape

        def new(b):
            c, v = inv(tuple(b))
            inb = z3.And(c, *[z3.And(ix(i) >= 0, ix(i) < ix(s)) for i, s in zip(v, shape)])
            return z3.If(inb, newval(tuple(v)), old(tuple(b)))

        st.elem = new
        return self


class Device:
    def __init__(self, type="cpu", index=None):  # noqa: A002
        self.type, self.index = type, index

    def __eq__(self, o):
        return isinstance(o, Device) and o.type == self.type or (isinstance(o, str) and o == self.type)

    def __hash__(self):
        return hash(self.type)

    def __repr__(self):
        return f"device(type='{self.type}')"


CPU = Device("cpu")


def _norm_dim(d, n):
    c = concrete(d) if not isinstance(d, int) else d
    if c is None:
        raise Unsupported("symbolic dim argument")
    if c < -n or c >= max(n, 1):
        raise IndexError(f"Dimension out of range (expected to be in range of [{-max(n,1)}, {max(n,1)-1}], but got {c})")
    return c % max(n, 1)
