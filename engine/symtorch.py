"""The stub ``torch`` package installed into sys.modules before /repo's source is imported
(shadow import).  Everything the repository touches resolves to the models of symops/symtensor;
anything not modelled raises ``Unsupported`` when *called* (never a guess)."""
from __future__ import annotations

import builtins
import contextlib
import sys
import types

import z3

from . import sym
from . import symops as O
from . import symtensor as T
from .sym import SymBool, SymInt, SymReal, Unsupported, lift
from .symtensor import Size, SymTensor

# ------------------------------------------------------------------------------------------
# attach methods to SymTensor

S = SymTensor


def _m(name, fn=None):
    def deco(f):
        setattr(S, name, f)
        return f
    return deco(fn) if fn is not None else deco


# arithmetic
_add = lambda a, b: a + b  # noqa
_sub = lambda a, b: a - b  # noqa
_mul = lambda a, b: a * b  # noqa
_div = lambda a, b: a / b  # noqa


def add(a, b, alpha=1, out=None):
    if alpha != 1:
        b = mul(b, alpha)
    return O.binop(_add, a, b)


def sub(a, b, alpha=1, out=None):
    if alpha != 1:
        b = mul(b, alpha)
    return O.binop(_sub, a, b)


def mul(a, b, out=None):
    def f(x, y):
        if z3.is_bool(x):
            return z3.And(x, y)
        return x * y
    return O.binop(f, a, b)


def div(a, b, rounding_mode=None, out=None):
    if rounding_mode is None:
        return O.binop(lambda x, y: sym.as_real(x) / sym.as_real(y), a, b, force_float=True)
    if rounding_mode == "floor":
        return O.binop(O.z_floordiv, a, b)
    if rounding_mode == "trunc":
        return O.binop(O.z_truncdiv, a, b)
    raise RuntimeError("div expected rounding_mode to be one of None, 'trunc', or 'floor'")


true_divide = div


def floor_divide(a, b):
    return O.binop(O.z_floordiv, a, b)


def remainder(a, b):
    return O.binop(O.z_mod, a, b)


def fmod(a, b):
    return O.binop(O.z_fmod, a, b)


def neg(a):
    return O.ewise(lambda x: -x, a)


def _cmp(fn):
    def g(a, b):
        if not (O.is_tensor(a) or O.is_tensor(b)):
            return NotImplemented
        if not isinstance(b, (SymTensor,) + O.Scalar) or not isinstance(a, (SymTensor,) + O.Scalar):
            return NotImplemented
        return O.binop(fn, a, b, out_kind="b")
    return g


eq = _cmp(lambda x, y: x == y)
ne = _cmp(lambda x, y: x != y)
lt = _cmp(lambda x, y: x < y)
le = _cmp(lambda x, y: x <= y)
gt = _cmp(lambda x, y: x > y)
ge = _cmp(lambda x, y: x >= y)

S.__add__ = lambda a, b: add(a, b) if isinstance(b, (SymTensor,) + O.Scalar) else NotImplemented
S.__radd__ = lambda a, b: add(a, b) if isinstance(b, O.Scalar) else NotImplemented
S.__sub__ = lambda a, b: sub(a, b) if isinstance(b, (SymTensor,) + O.Scalar) else NotImplemented
S.__rsub__ = lambda a, b: O.binop(lambda x, y: y - x, a, b) if isinstance(b, O.Scalar) else NotImplemented
S.__mul__ = lambda a, b: mul(a, b) if isinstance(b, (SymTensor,) + O.Scalar) else NotImplemented
S.__rmul__ = lambda a, b: mul(a, b) if isinstance(b, O.Scalar) else NotImplemented
S.__truediv__ = lambda a, b: div(a, b) if isinstance(b, (SymTensor,) + O.Scalar) else NotImplemented
S.__rtruediv__ = lambda a, b: O.binop(lambda x, y: sym.as_real(y) / sym.as_real(x), a, b, force_float=True) if isinstance(b, O.Scalar) else NotImplemented
S.__floordiv__ = lambda a, b: floor_divide(a, b)
S.__mod__ = lambda a, b: remainder(a, b)
S.__neg__ = neg
S.__pos__ = lambda a: a
S.__eq__ = lambda a, b: eq(a, b) if isinstance(b, (SymTensor,) + O.Scalar) else False
S.__ne__ = lambda a, b: ne(a, b) if isinstance(b, (SymTensor,) + O.Scalar) else True
S.__lt__ = lt
S.__le__ = le
S.__gt__ = gt
S.__ge__ = ge


def _matmul_op(a, b):
    if not isinstance(b, SymTensor):
        return NotImplemented  # lets LinearOperator.__rmatmul__ take over
    return O.matmul(a, b)


S.__matmul__ = _matmul_op
S.matmul = lambda a, b: _dispatch("matmul", matmul, (a, b), {})
S.__and__ = lambda a, b: O.binop(lambda x, y: z3.And(x, y), a, b)
S.__or__ = lambda a, b: O.binop(lambda x, y: z3.Or(x, y), a, b)
S.__invert__ = lambda a: O.ewise(lambda x: z3.Not(x), a)


def _pow(a, p):
    if isinstance(p, builtins.int) and 0 <= p <= 4:
        def f(x):
            r = None
            for _ in range(p):
                r = x if r is None else r * x
            return r if r is not None else (z3.RealVal(1) if x.sort() == z3.RealSort() else z3.IntVal(1))
        return O.ewise(f, a)
    if isinstance(p, builtins.float) and p == 0.5:
        return sqrt(a)
    if isinstance(p, builtins.int) and p == -1:
        return reciprocal(a)
    pw = sym.uf("pow", z3.RealSort(), z3.RealSort(), z3.RealSort())
    return O.binop(lambda x, y: pw(sym.as_real(x), sym.as_real(y)), a, p, force_float=True)


S.__pow__ = _pow
S.pow = _pow


def _bool(a):
    n_ = a.numel()
    if isinstance(n_, SymInt):
        if not bool(n_ == 1):  # decided under the path condition (forks when the size may or may not be 1)
            raise RuntimeError("Boolean value of Tensor with more than one value is ambiguous")
    elif n_ != 1:
        raise RuntimeError("Boolean value of Tensor with more than one value is ambiguous")
    e = a.elem_fn()
    if e is None:
        return sym.ctx().fork("tensor_truth")
    v = e(tuple([z3.IntVal(0)] * a.dim()))
    return bool(lift(v if z3.is_bool(v) else v != 0))


S.__bool__ = _bool


def item(a):
    e = a.elem_fn()
    if e is None:
        raise Unsupported("item() of opaque tensor")
    return lift(e(tuple([z3.IntVal(0)] * a.dim())))


S.item = item
S.__int__ = item
S.__float__ = item
S.__index__ = lambda a: item(a).__index__() if not isinstance(item(a), builtins.int) else item(a)

# elementwise unary
_UN = {}


def _unary(name, fn=None, keep_int=False):
    def op(a, out=None):
        if fn is not None:
            return O.ewise(fn, a)
        f = O.real_uf(name)
        dt = a.dtype if a.dtype.kind == "f" else T.DEFAULT_DTYPE
        return O._ewise(lambda x: f(sym.as_real(x)), (a,), dt, dt)
    op.__name__ = name
    _UN[name] = op
    return op


abs_ = _unary("abs", lambda x: z3.If(x >= 0, x, -x))
sign = _unary("sign", lambda x: z3.If(x > 0, 1, z3.If(x < 0, -1, 0)) if x.sort() == z3.IntSort() else z3.If(x > 0, z3.RealVal(1), z3.If(x < 0, z3.RealVal(-1), z3.RealVal(0))))
sqrt = _unary("sqrt")
exp = _unary("exp")
log = _unary("log")
reciprocal = _unary("reciprocal", None)
rsqrt = _unary("rsqrt")
cos = _unary("cos")
sin = _unary("sin")


def reciprocal(a):  # noqa: F811
    dt = a.dtype if a.dtype.kind == "f" else T.DEFAULT_DTYPE
    return O._ewise(lambda x: z3.RealVal(1) / sym.as_real(x), (a,), dt, dt)


def isnan(a):
    f = sym.uf("isnan", z3.RealSort(), z3.BoolSort())
    if a.dtype.kind != "f":
        return O._ewise(lambda x: z3.BoolVal(False), (a,), a.dtype, T.bool_)
    return O._ewise(lambda x: f(x), (a,), a.dtype, T.bool_)


def where(cond, a=None, b=None):
    if a is None:
        raise Unsupported("where(cond)")
    ts = [x for x in (a, b) if O.is_tensor(x)]
    dt = O.result_dtype(a, b) if ts else T.DEFAULT_DTYPE
    sc, fc = O.operand(cond, T.bool_)
    sa, fa = O.operand(a, dt)
    sb, fb = O.operand(b, dt)
    shape = O.broadcast_shapes(sc, sa, sb)
    if None in (fc, fa, fb):
        return SymTensor.from_elem(shape, dt, None)
    return SymTensor.from_elem(shape, dt, lambda idx: z3.If(fc(idx), fa(idx), fb(idx)))


def masked_fill(a, mask, value):
    return where(mask, value if O.is_tensor(value) else O.full((), value, dtype=a.dtype), a)


def clamp(a, min=None, max=None):  # noqa: A002
    r = a
    if min is not None:
        r = O.binop(lambda x, y: z3.If(x < y, y, x), r, min)
    if max is not None:
        r = O.binop(lambda x, y: z3.If(x > y, y, x), r, max)
    return r


def clamp_min(a, m):
    return clamp(a, min=m)


def clamp_max(a, m):
    return clamp(a, max=m)


def addcmul(inp, t1, t2, value=1):
    return add(inp, mul(mul(t1, t2), value) if value != 1 else mul(t1, t2))


def addcdiv(inp, t1, t2, value=1):
    return add(inp, mul(div(t1, t2), value) if value != 1 else div(t1, t2))


def any_(a, dim=None, **kw):
    if dim is not None:
        raise Unsupported("any(dim)")
    return _opaque_scalar_bool(a, "any")


def all_(a, dim=None, **kw):
    if dim is not None:
        raise Unsupported("all(dim)")
    return _opaque_scalar_bool(a, "all")


def _opaque_scalar_bool(a, label):
    """0-d bool tensor r = any(a) / all(a).  r is a fresh boolean tied to the entries of ``a``:
      any:  r -> (w in bounds and a[w] != 0) for a skolem witness w;   not r -> forall idx: a[idx] == 0
      all:  not r -> (w in bounds and a[w] == 0);                       r -> forall idx: a[idx] != 0
    the universal halves are registered in ctx.universals and instantiated by contracts at their
    skolem indices (sym.instantiate_universals)."""
    c = sym.ctx()
    e = a.elem_fn()
    if e is None:
        tok = z3.Bool(c.fresh_name(f"{label}@{a.storage.id}v{a.storage.version}"))
        return SymTensor.from_elem((), T.bool_, lambda idx: tok)
    nz = (lambda v: v if z3.is_bool(v) else v != 0)
    if a.dim() == 0:
        tok = nz(e(()))
        return SymTensor.from_elem((), T.bool_, lambda idx: tok)
    tok = z3.Bool(c.fresh_name(f"{label}@{a.storage.id}v{a.storage.version}"))
    w = tuple(z3.Int(c.fresh_name(f"w!{label}{j}")) for j in range(a.dim()))
    inb = a.in_bounds(w)
    shape = a.shape
    if label == "any":
        c.add_axiom(z3.Implies(tok, z3.And(inb, nz(e(w)))))
        c.universals.append((len(shape), lambda idx: z3.Implies(z3.And(z3.Not(tok), z3.And(*[z3.And(O.ix(i) >= 0, O.ix(i) < O.ix(s_)) for i, s_ in zip(idx, shape)])), z3.Not(nz(e(tuple(idx)))))))
    else:
        c.add_axiom(z3.Implies(z3.Not(tok), z3.And(inb, z3.Not(nz(e(w))))))
        c.universals.append((len(shape), lambda idx: z3.Implies(z3.And(tok, z3.And(*[z3.And(O.ix(i) >= 0, O.ix(i) < O.ix(s_)) for i, s_ in zip(idx, shape)])), nz(e(tuple(idx))))))
    return SymTensor.from_elem((), T.bool_, lambda idx: tok)


def equal(a, b):
    """torch.equal: same shape and all entries equal.  True branch: the universal fact is registered
    (instantiate with sym.instantiate_universals at rank = a.dim()); False branch: a skolem witness differs."""
    if a.dim() != b.dim():
        return False
    for p, q in zip(a.shape, b.shape):
        if not O.dim_eq(p, q):
            return False
    c = sym.ctx()
    ea, eb = a.elem_fn(), b.elem_fn()
    if ea is None or eb is None:
        return c.fork("equal")
    if a.storage is b.storage and a._fwd is b._fwd and a.dtype.kind == "f":
        # torch.equal(x, x) is False iff x contains NaN
        return c.fork(f"equal_self_no_nan@{a.storage.id}")
    w = tuple(z3.Int(c.fresh_name(f"w!equal{j}")) for j in range(a.dim()))
    differs = z3.And(a.in_bounds(w), ea(w) != eb(w)) if a.dim() else ea(()) != eb(())
    if c.feasible(differs) is False:
        return True
    if c.fork("equal"):
        shape = a.shape
        c.universals.append((len(shape), lambda idx: z3.Implies(z3.And(*[z3.And(O.ix(i) >= 0, O.ix(i) < O.ix(s_)) for i, s_ in zip(idx, shape)]) if shape else z3.BoolVal(True), ea(tuple(idx)) == eb(tuple(idx)))))
        return True
    c.assume(differs)
    return False


def numel(a):
    return a.numel()


# attach
for _n, _f in dict(
    add=add, sub=sub, mul=mul, div=div, true_divide=div, floor_divide=floor_divide, remainder=remainder, fmod=fmod,
    neg=neg, eq=eq, ne=ne, lt=lt, le=le, gt=gt, ge=ge, abs=abs_, sign=sign, sqrt=sqrt, exp=exp, log=log,
    reciprocal=reciprocal, rsqrt=rsqrt, isnan=isnan, where=lambda a, c, b: where(c, a, b), masked_fill=masked_fill,
    clamp=clamp, clamp_min=clamp_min, clamp_max=clamp_max, addcmul=addcmul, addcdiv=addcdiv, any=any_, all=all_,
    unsqueeze=O.unsqueeze, squeeze=O.squeeze, permute=O.permute, transpose=O.transpose, expand=O.expand,
    expand_as=O.expand_as, diagonal=O.diagonal, narrow=O.narrow, select=O.select, reshape=O.reshape, view=O.view,
    flatten=O.flatten, unflatten=O.unflatten, contiguous=O.contiguous, clone=O.clone, detach=O.detach, to=O.to,
    sum=O.sum_, __getitem__=O.getitem, __setitem__=O.setitem, copy_=O.copy_, cos=cos, sin=sin,
).items():
    setattr(S, _n, _f)

S.type = lambda a, dt=None, **kw: (a.dtype if dt is None else O.to(a, dt))
S.type_as = lambda a, b: O.to(a, b.dtype)
S.double = lambda a: O.to(a, T.float64)
S.float = lambda a: O.to(a, T.float32)
S.half = lambda a: O.to(a, T.float16)
S.long = lambda a: O.to(a, T.int64)
S.int = lambda a: O.to(a, T.int32)
S.bool = lambda a: O.to(a, T.bool_)
S.cpu = lambda a: a
S.cuda = lambda a, *x, **k: (_ for _ in ()).throw(Unsupported("cuda"))
S.t = lambda a: O.transpose(a, 0, 1) if a.dim() == 2 else a
S.mT = property(lambda a: O.transpose(a, -1, -2))
S.T = property(lambda a: O.permute(a, *reversed(range(a.dim()))))
S.data = property(lambda a: O.detach(a))
S.is_leaf = property(lambda a: True)
S.grad = None
S.view_as = lambda a, b: O.view(a, *b.shape)
S.reshape_as = lambda a, b: O.reshape(a, *b.shape)
S.new_zeros = lambda a, *s, dtype=None, **k: O.zeros(*s, dtype=dtype or a.dtype)
S.new_ones = lambda a, *s, dtype=None, **k: O.ones(*s, dtype=dtype or a.dtype)
S.new_empty = lambda a, *s, dtype=None, **k: O.empty(*s, dtype=dtype or a.dtype)
S.new_full = lambda a, s, v, dtype=None, **k: O.full(s, v, dtype=dtype or a.dtype)
S.new_tensor = lambda a, d, dtype=None, **k: O.tensor(d, dtype=dtype or a.dtype)
S.tolist = lambda a: (_ for _ in ()).throw(Unsupported("tolist"))
S.numpy = lambda a: (_ for _ in ()).throw(Unsupported("numpy"))
S.repeat = lambda a, *s: _repeat(a, *s)
S.unbind = lambda a, dim=0: _unbind(a, dim)
S.__iter__ = lambda a: iter(_unbind(a, 0))
S.index_select = lambda a, dim, index: _index_select(a, dim, index)
S.gather = lambda a, dim, index: gather(a, dim, index)
S.requires_grad_ = lambda a, flag=True: (setattr(a, "requires_grad", flag), a)[1]
S.detach_ = lambda a: (setattr(a, "requires_grad", False), a)[1]
def _reshape_inplace(a, v):
    """in-place shape change (unsqueeze_/squeeze_/transpose_): the SAME tensor object now is that view"""
    a._shape, a._fwd, a._inv, a._contig = v._shape, v._fwd, v._inv, v._contig
    sym.ctx().event("inplace-shape", {"storage": a.storage.id, "owner": a.storage.owner, "label": a.storage.label, "op": "reshape_"})
    return a


S.unsqueeze_ = lambda a, d: _reshape_inplace(a, O.unsqueeze(a, d))
S.squeeze_ = lambda a, *d: _reshape_inplace(a, O.squeeze(a, *d))
S.flip = lambda a, *dims: flip(a, dims[0] if len(dims) == 1 and isinstance(dims[0], (tuple, list)) else dims)
S.norm = lambda a, p=2, dim=None, keepdim=False: norm(a, p, dim, keepdim)
S.prod = lambda a, dim=None, keepdim=False: prod(a, dim, keepdim)
S.mean = lambda a, dim=None, keepdim=False: mean(a, dim, keepdim)
def split(a, sizes, dim=0):
    """Tensor.split with a list of section sizes (views, as in torch)"""
    if isinstance(sizes, (builtins.int, sym.SymInt)):
        raise Unsupported("split with a chunk size")
    d = T._norm_dim(dim, a.dim())
    out, start = [], 0
    for sz in sizes:
        out.append(O.narrow(a, d, start, sz))
        start = start + sz
    if not O.dim_eq(start, a.shape[d]):
        raise RuntimeError("split_with_sizes expects split_sizes to sum exactly to the size of the dimension")
    return tuple(out)


S.split = split

def _resize_as_(a, other):
    if len(a.shape) == len(other.shape) and builtins.all(O.dim_eq(p, q) for p, q in zip(a.shape, other.shape)):
        return a  # same shape: no-op
    raise Unsupported("resize_as_ to a different shape")


S.resize_as_ = _resize_as_
S.max = lambda a, *x, **k: max_(a, *x, **k)
S.min = lambda a, *x, **k: min_(a, *x, **k)


def _inpl(name, fn, force_float=False):
    def m(a, *others, **kw):
        alpha = kw.pop("alpha", None)
        if alpha is not None:
            others = (mul(others[0], alpha),) + tuple(others[1:])
        value = kw.pop("value", None)
        if value is not None:
            others = tuple(others) + (value,)
        return O.inplace(fn, a, *others, what=name)
    setattr(S, name, m)


_inpl("add_", lambda x, y: x + y)
_inpl("sub_", lambda x, y: x - y)
_inpl("mul_", lambda x, y: x * y)
_inpl("div_", lambda x, y: x / y)
_inpl("neg_", lambda x: -x)
_inpl("zero_", lambda x: x * 0)
_inpl("fill_", lambda x, y: y)
_inpl("clamp_min_", lambda x, y: z3.If(x < y, y, x))
_inpl("clamp_max_", lambda x, y: z3.If(x > y, y, x))
_inpl("masked_fill_", lambda x, m, v: z3.If(m, v, x))
_inpl("addcmul_", lambda x, a, b, v=None: x + (a * b if v is None else v * a * b))
_inpl("addcdiv_", lambda x, a, b, v=None: x + (a / b if v is None else v * a / b))
_inpl("sqrt_", lambda x: O.real_uf("sqrt")(x))
_inpl("abs_", lambda x: z3.If(x >= 0, x, -x))
_inpl("reciprocal_", lambda x: 1 / x)
_inpl("pow_", lambda x, p: sym.uf("pow", z3.RealSort(), z3.RealSort(), z3.RealSort())(x, p))


def _mf(a, mask, value):
    dt = a.dtype
    return O.inplace(lambda x, m, v: z3.If(m, v, x), a, _AsBool(mask), value, what="masked_fill_")


class _AsBool:
    pass


def masked_fill_(a, mask, value):
    sm, fm = O.operand(mask, T.bool_)
    sv, fv = O.operand(value, a.dtype)
    cur = a.elem_fn()
    if None in (fm, fv, cur):
        a.storage.elem = None
        return a
    return a._write(lambda idx: z3.If(fm(idx), fv(idx), cur(idx)), "masked_fill_")


S.masked_fill_ = masked_fill_


def transpose_(a, d0, d1):
    return _reshape_inplace(a, O.transpose(a, d0, d1))


S.transpose_ = transpose_
S.resize_ = lambda a, *s: (_ for _ in ()).throw(Unsupported("resize_"))


def _repeat(a, *sizes):
    if len(sizes) == 1 and isinstance(sizes[0], (tuple, list)):
        sizes = tuple(sizes[0])
    if len(sizes) < a.dim():
        raise RuntimeError("Number of dimensions of repeat dims can not be smaller than number of dimensions of tensor")
    off = len(sizes) - a.dim()
    x = a
    for _ in range(off):
        x = O.unsqueeze(x, 0)
    shape = Size(r * s for r, s in zip(sizes, x.shape))
    e, xs = x.elem_fn(), x.shape
    if e is None:
        return SymTensor.from_elem(shape, a.dtype, None)
    return SymTensor.from_elem(shape, a.dtype, lambda idx: e(tuple(O.ix(i) % O.ix(s) if not (isinstance(s, builtins.int) and s == 1) else z3.IntVal(0) for i, s in zip(idx, xs))))


def _unbind(a, dim=0):
    d = T._norm_dim(dim, a.dim())
    n = sym.concrete(a.shape[d]) if not isinstance(a.shape[d], builtins.int) else a.shape[d]
    if n is None:
        raise Unsupported("unbind over a symbolic dimension")
    return tuple(O.select(a, d, i) for i in range(n))


def _index_select(a, dim, index):
    d = T._norm_dim(dim, a.dim())
    idx = [slice(None)] * a.dim()
    idx[d] = index
    return O.getitem(a, tuple(idx))


def gather(a, dim, index, sparse_grad=False):
    d = T._norm_dim(dim, a.dim())
    if index.dim() != a.dim():
        raise RuntimeError("Index tensor must have the same number of dimensions as input tensor")
    e, ie = a.elem_fn(), index.elem_fn()
    if e is None or ie is None:
        return SymTensor.from_elem(index.shape, a.dtype, None)
    size = a.shape[d]

    def elem(idx):
        v = ie(idx)
        return e(tuple(idx[:d]) + (v,) + tuple(idx[d + 1:]))
    return SymTensor.from_elem(index.shape, a.dtype, elem)


def scatter_(a, dim, index, src):
    """a.scatter_(dim, index, src): a[..., index[..., i], ...] = src[..., i] along dim.  The written tensor is a fresh
    function f with the universal fact  f(idx with index[idx] at dim) == src[idx]  (registered in ctx.universals
    under the key "scatter", instantiated by contracts) and  f == old  wherever no index entry points (not
    expressible without the inverse map: left unconstrained, which over-approximates)."""
    d = T._norm_dim(dim, a.dim())
    c = sym.ctx()
    ie = index.elem_fn()
    se = src.elem_fn() if O.is_tensor(src) else (lambda idx: O.scalar_term(src, a.dtype))
    if ie is None or se is None:
        a.storage.elem = None
        return a
    O._check_index_bounds(index, a.shape[d])
    f = T.fresh_fun("scattered", a.dim(), T.z3sort(a.dtype))
    ishape = index.shape
    sshape = src.shape if O.is_tensor(src) else ()
    c.universals.append(("scatter", lambda idx: z3.Implies(z3.And(*[z3.And(O.ix(i) >= 0, O.ix(i) < O.ix(s_)) for i, s_ in zip(idx, ishape)]),
                                                          f(*[O.ix(ie(tuple(idx))) if k == d else O.ix(i) for k, i in enumerate(idx)]) == se(tuple(idx) if sshape else ()))))
    a._write(lambda idx: f(*[O.ix(i) for i in idx]), "scatter_")
    return a


S.scatter_ = scatter_


def norm(a, p=2, dim=None, keepdim=False):
    f = sym.uf("sqrt", z3.RealSort(), z3.RealSort())
    sq = O.sum_(mul(a, a), dim=dim, keepdim=keepdim)
    return O.ewise(lambda x: f(x), sq)


def prod(a, dim=None, keepdim=False):
    """product along one dimension, modelled only where it is trivial: every factor is provably 1 (e.g. the signs of a
    positive diagonal) -> ones; anything else is outside the model"""
    e = a.elem_fn()
    if e is None or dim is None or keepdim:
        raise Unsupported("prod")
    c = sym.ctx()
    idx = tuple(z3.Int(c.fresh_name(f"w!prod{j}")) for j in range(a.dim()))
    v = e(idx)
    one = z3.RealVal(1) if v.sort() == z3.RealSort() else z3.IntVal(1)
    if c.feasible(z3.And(a.in_bounds(idx), v != one)) is False:
        d = T._norm_dim(dim, a.dim())
        shape = tuple(s_ for k_, s_ in enumerate(a.shape) if k_ != d)
        return SymTensor.from_elem(shape, a.dtype, lambda i: one)
    raise Unsupported("prod of factors that are not all 1")


def mean(a, dim=None, keepdim=False):
    s = O.sum_(a, dim=dim, keepdim=keepdim)
    if dim is None:
        cnt = a.numel()
    else:
        cnt = 1
        for d in (dim if isinstance(dim, (tuple, list)) else [dim]):
            cnt = cnt * a.shape[T._norm_dim(d, a.dim())]
    return div(s, cnt)


def _extremum(a, label, x, k):
    """full reduction min / max of a tensor with at least one element: exact (nested If) for small concrete shapes,
    otherwise a fresh scalar r with a skolem witness (a[w] == r) and the universal half (forall idx: a[idx] >= r resp. <= r)
    registered in ctx.universals under the rank of ``a``"""
    if x or k:
        raise Unsupported(f"{label}(dim/other)")
    c = sym.ctx()
    e = a.elem_fn()
    if e is None:
        raise Unsupported(f"{label} of an opaque tensor")
    if a.dim() == 0:
        v = e(())
        return SymTensor.from_elem((), a.dtype, lambda idx: v)
    shape = a.shape
    better = (lambda p, q: p < q) if label == "min" else (lambda p, q: p > q)
    if all(isinstance(s_, builtins.int) for s_ in shape):
        n = 1
        for s_ in shape:
            n *= s_
        if n == 0:
            raise RuntimeError(f"{label}(): Expected reduction dim to be specified for input.numel() == 0")
        if n <= 6:
            import itertools as _it

            vals = [e(tuple(z3.IntVal(i) for i in idx)) for idx in _it.product(*[range(s_) for s_ in shape])]
            r = vals[0]
            for v in vals[1:]:
                r = z3.If(better(v, r), v, r)
            return SymTensor.from_elem((), a.dtype, lambda idx: r)
    if not bool(a.numel() >= 1):
        raise RuntimeError(f"{label}(): Expected reduction dim to be specified for input.numel() == 0")
    r = z3.Const(c.fresh_name(f"{label}@{a.storage.id}v{a.storage.version}"), T.z3sort(a.dtype))
    w = tuple(z3.Int(c.fresh_name(f"w!{label}{j}")) for j in range(a.dim()))
    c.add_axiom(z3.And(a.in_bounds(w), e(w) == r))
    inb = lambda idx: z3.And(*[z3.And(O.ix(i) >= 0, O.ix(i) < O.ix(s_)) for i, s_ in zip(idx, shape)])  # noqa
    c.universals.append((len(shape), lambda idx: z3.Implies(inb(idx), z3.Not(better(e(tuple(idx)), r)))))
    return SymTensor.from_elem((), a.dtype, lambda idx: r)


def max_(a, *x, **k):
    return _extremum(a, "max", x, k)


def min_(a, *x, **k):
    return _extremum(a, "min", x, k)


def diag_embed(a, offset=0, dim1=-2, dim2=-1):
    if offset != 0 or (dim1, dim2) != (-2, -1):
        raise Unsupported("diag_embed with offset/dims")
    n = a.shape[-1]
    e = a.elem_fn()
    zero = O.scalar_term(0, a.dtype)
    shape = a.shape + (n,)
    if e is None:
        return SymTensor.from_elem(shape, a.dtype, None)
    return SymTensor.from_elem(shape, a.dtype, lambda idx: z3.If(O.ix(idx[-1]) == O.ix(idx[-2]), e(tuple(idx[:-1])), zero))


def tril(a, diagonal=0):
    e = a.elem_fn()
    zero = O.scalar_term(0, a.dtype)
    return SymTensor.from_elem(a.shape, a.dtype, None if e is None else (lambda idx: z3.If(O.ix(idx[-1]) <= O.ix(idx[-2]) + diagonal, e(idx), zero)))


def triu(a, diagonal=0):
    e = a.elem_fn()
    zero = O.scalar_term(0, a.dtype)
    return SymTensor.from_elem(a.shape, a.dtype, None if e is None else (lambda idx: z3.If(O.ix(idx[-1]) >= O.ix(idx[-2]) + diagonal, e(idx), zero)))


def flip(a, dims):
    dims = [T._norm_dim(d, a.dim()) for d in (dims if isinstance(dims, (tuple, list)) else [dims])]
    e, sh = a.elem_fn(), a.shape
    return SymTensor.from_elem(sh, a.dtype, None if e is None else (lambda idx: e(tuple((O.ix(sh[k]) - 1 - O.ix(i)) if k in dims else i for k, i in enumerate(idx)))))


def matmul(a, b, out=None):
    return O.matmul(a, b)


# ------------------------------------------------------------------------------------------
# __torch_function__ protocol (the repository's LinearOperator implements it)

_OVERRIDABLE = {}


def _dispatch(name, impl, args, kwargs):
    """mimic torch's dispatch: if some argument is a non-tensor object defining
    __torch_function__ (a LinearOperator), hand the call to it."""
    for a in args:
        if not isinstance(a, SymTensor) and hasattr(type(a), "__torch_function__") and not isinstance(a, O.Scalar):
            types_ = tuple({type(x) for x in args if hasattr(type(x), "__torch_function__")} | {SymTensor if builtins.any(isinstance(x, SymTensor) for x in args) else type(a)})
            r = type(a).__torch_function__(_PUBLIC[name], types_, args, kwargs)
            if r is not NotImplemented:
                return r
    return impl(*args, **kwargs)


_PUBLIC = {}


def public(name, impl):
    def f(*args, **kwargs):
        out = kwargs.pop("out", None)
        r = _dispatch(name, impl, args, kwargs)
        if out is None:
            return r
        # torch.f(..., out=t): the result is WRITTEN INTO t (an in-place write seen by every alias of t) and t is returned.
        # (the result is a snapshot of the operands taken before the write, so out may alias an operand)
        if not isinstance(out, SymTensor) or not isinstance(r, SymTensor):
            raise Unsupported(f"torch.{name}(out=...) with a non-tensor result")
        if len(out.shape) != len(r.shape) or not builtins.all(O.dim_eq(p, q) for p, q in zip(out.shape, r.shape)):
            raise Unsupported(f"torch.{name}(out=...) with an out tensor of another shape (resizing is not modelled)")
        if out.dtype is not r.dtype:
            raise Unsupported(f"torch.{name}(out=...) with an out tensor of another dtype")
        O.copy_(out, r)
        return out
    f.__name__ = name
    f.__qualname__ = name
    f._impl = impl
    _PUBLIC[name] = f
    return f


def unsupported(name):
    def f(*a, **k):
        raise Unsupported(f"torch.{name} is not modelled")
    f.__name__ = name
    return f


# ------------------------------------------------------------------------------------------
# autograd.Function model


class _Ctx:
    def __init__(self):
        self.saved_tensors = ()
        self.needs_input_grad = ()

    def save_for_backward(self, *ts):
        self.saved_tensors = ts

    def mark_non_differentiable(self, *a):
        pass


class Function:
    """forward runs for real on symbolic values with a recording ctx (graph recording dropped)."""

    @classmethod
    def apply(cls, *args):
        c = _Ctx()
        c.needs_input_grad = tuple(bool(getattr(a, "requires_grad", False)) for a in args)
        out = cls.forward(c, *args)
        sym.ctx().event("autograd_apply", (cls, c, args, out))
        return out


class _NoGrad(contextlib.ContextDecorator):
    def __enter__(self):
        return self

    def __exit__(self, *a):
        return False


def build():
    """create the stub package tree and return {name: module} to be put in sys.modules"""
    torch = types.ModuleType("torch")
    torch.__path__ = []  # package
    mods = {"torch": torch}

    def sub(name):
        m = types.ModuleType(name)
        m.__path__ = []
        mods[name] = m
        parent, _, leaf = name.rpartition(".")
        setattr(mods[parent], leaf, m)
        return m

    torch.Tensor = SymTensor
    torch.Size = Size
    torch.dtype = T.DType
    torch.device = T.Device
    for n in ("float16", "half", "float32", "float64", "double", "int32", "int64", "long", "uint8", "int16", "int8"):
        setattr(torch, n, getattr(T, n))

    def _missing(name):  # an attribute of torch that is not modelled is a limit of the model, never an error of the code under proof
        if name.startswith("__"):
            raise AttributeError(name)
        raise Unsupported(f"torch.{name}")
    torch.__getattr__ = _missing
    torch.float = T.float32
    torch.int = T.int32
    torch.bool = T.bool_
    torch.uint = T.uint8
    torch.LongTensor = type("LongTensor", (SymTensor,), {})
    torch.BoolTensor = type("BoolTensor", (SymTensor,), {})
    torch.is_tensor = O.is_tensor
    torch.is_floating_point = lambda x: x.dtype.kind == "f"
    torch.is_complex = lambda x: False
    torch.get_default_dtype = lambda: T.DEFAULT_DTYPE
    torch.broadcast_shapes = O.broadcast_shapes
    torch.no_grad = _NoGrad
    torch.enable_grad = _NoGrad
    torch.__version__ = "0.0.shadow"
    for n, f in dict(
        zeros=O.zeros, ones=O.ones, empty=O.empty, full=O.full, eye=O.eye, arange=O.arange, tensor=O.tensor,
        zeros_like=O.zeros_like, ones_like=O.ones_like, empty_like=O.empty_like, full_like=O.full_like,
        randn=O.randn, rand=O.rand, as_tensor=O.tensor,
    ).items():
        setattr(torch, n, f)
    for n, f in dict(
        add=add, sub=sub, mul=mul, div=div, true_divide=div, matmul=matmul, neg=neg, abs=abs_, sign=sign, sqrt=sqrt,
        exp=exp, log=log, reciprocal=reciprocal, isnan=isnan, where=where, clamp=clamp, addcmul=addcmul, addcdiv=addcdiv,
        any=any_, all=all_, equal=equal, eq=eq, ne=ne, lt=lt, le=le, gt=gt, ge=ge, cat=O.cat, stack=O.stack,
        sum=O.sum_, unsqueeze=O.unsqueeze, squeeze=O.squeeze, permute=O.permute, transpose=O.transpose,
        diagonal=O.diagonal, diag_embed=diag_embed, tril=tril, triu=triu, flip=flip, clone=O.clone, numel=numel,
        gather=gather, norm=norm, fmod=fmod, remainder=remainder, floor_divide=floor_divide, masked_fill=masked_fill,
        reshape=O.reshape, flatten=O.flatten, narrow=O.narrow, index_select=_index_select, mean=mean,
    ).items():
        setattr(torch, n, public(n, f))
    torch.split = public("split", split)
    torch.max = public("max", max_)
    torch.min = public("min", min_)
    for n in ("prod", "cumsum", "count_nonzero", "isclose", "inverse", "logdet", "cholesky", "cholesky_solve",
              "dsmm", "sparse_coo_tensor", "sparse_csr_tensor", "pinverse", "qr", "solve", "eig", "sort", "argsort", "scatter",
              "topk", "bmm", "einsum", "outer", "trace", "det", "kron", "allclose", "searchsorted", "unique", "nonzero"):
        setattr(torch, n, public(n, unsupported(n)))
    torch._diagonal = O.diagonal

    linalg = sub("torch.linalg")
    for n in ("cholesky_ex", "cholesky", "solve_triangular", "qr", "svd", "eigh", "eigvalsh", "solve", "inv", "norm"):
        setattr(linalg, n, public("linalg." + n, unsupported("linalg." + n)))
    autograd = sub("torch.autograd")
    autograd.Function = Function
    autograd.grad = unsupported("autograd.grad")
    autograd.enable_grad = _NoGrad
    autograd.no_grad = _NoGrad
    jit = sub("torch.jit")
    jit.script = lambda f=None, **k: f if f is not None else (lambda g: g)
    jit.trace = unsupported("jit.trace")
    jit.is_tracing = lambda: False
    fft = sub("torch.fft")
    fft.fft = unsupported("fft.fft")
    fft.ifft = unsupported("fft.ifft")
    sparse = sub("torch.sparse")
    for n in ("FloatTensor", "DoubleTensor", "HalfTensor"):
        setattr(sparse, n, type(n, (), {}))
    sparse.mm = unsupported("sparse.mm")
    cuda = sub("torch.cuda")
    cuda.is_available = lambda: False
    cuda.sparse = types.SimpleNamespace(FloatTensor=object, DoubleTensor=object, HalfTensor=object)
    nn = sub("torch.nn")
    nn.Module = type("Module", (), {"cuda": lambda self, *a, **k: self})
    overrides = sub("torch.overrides")
    overrides.has_torch_function = lambda args: False
    return mods, torch
