#!/bin/sh
# Builds /verif/.venv (python 3.12, offline) = tooling wheels + a .pth exposing /venv's site-packages
# (torch, scipy, the editable install of /repo).  Idempotent.
set -e
HERE="$(cd "$(dirname "$0")" && pwd)"
V="$HERE/.venv"
if [ -x "$V/bin/python" ] && "$V/bin/python" -c "import z3, cvc5, jsonschema, torch, linear_operator" 2>/dev/null; then
  echo "setup: $V already usable"; exit 0
fi
rm -rf "$V"
/venv/bin/python -m venv "$V"
PIP_NO_INDEX=1 "$V/bin/pip" install -q --no-index --find-links /opt/veriftools/wheels \
    z3-solver cvc5 jsonschema deal icontract hypothesis
SP="$("$V/bin/python" -c 'import site;print(site.getsitepackages()[0])')"
echo "import site; site.addsitedir('/venv/lib/python3.12/site-packages')" > "$SP/zz_venv_overlay.pth"
"$V/bin/python" -c "import z3, cvc5, jsonschema, torch, linear_operator; print('setup ok', z3.get_version_string(), torch.__version__, linear_operator.__file__)"
