#!/bin/sh
# usage: agent_prompt.sh C03  -> prints the briefing for an independent mutation sub-agent
ID=$1
cat <<TXT
You are helping test a verification effort for the open-source PyTorch library cornellius-gp/linear_operator.
You have your OWN scratch git worktree of the library at /tmp/wt_$ID (work ONLY there; never touch /repo or /verif, never read /verif).
Run Python as: cd /tmp/wt_$ID && /venv/bin/python ...   (with that cwd, 'import linear_operator' picks up the worktree copy; check linear_operator.__file__).
The existing test suite runs with: cd /tmp/wt_$ID && /venv/bin/python -m pytest -q -p no:cacheprovider --timeout=900 -x   (about 75 s on a free machine; other jobs share this machine so allow 10 min).

Below is a semantic property that the library is supposed to satisfy.

$(/venv/bin/python /verif/tools/proptext.py $ID)

TASK: produce TWO different, independent source changes ("change 1", "change 2") to the library (files under linear_operator/ only, not tests), each of which
  (a) BREAKS this property (on the ORIGINAL code the demonstration passes, with the change it fails),
  (b) still imports/compiles and still passes the ENTIRE existing test suite (you must actually run the full suite with the change applied and confirm 0 failures),
  (c) is realistic - the kind of slip a maintainer could make in a refactor or optimisation (wrong index arithmetic in one branch, dropped clone, swapped flag, stale cache key, missing restore, off-by-one, wrong broadcast...), small (1-15 changed lines),
  (d) needs something SPECIFIC to manifest: an unusual input (particular size / batch shape / dtype / index kind / setting value), a multi-step sequence of operations, a particular history, or two cooperating sites that each look fine alone. NOT something ordinary use or the existing tests would expose at once.
The two changes should touch different mechanisms/functions of the property (ideally different files).
Note: the unmodified library already violates this property in a few corner cases (some are named in the property text above). Do NOT rely on those pre-existing failures: your demonstration must PASS on the unmodified code and FAIL with your change.

For each change k in {1,2} write these files (create the directory /tmp/wt_$ID/_out/k/):
  /tmp/wt_$ID/_out/k/patch.diff   - output of 'git diff' for the change (must apply with 'git apply' to a clean checkout)
  /tmp/wt_$ID/_out/k/demo.py      - a small standalone program: exits 0 (prints PASS) when the property holds on what it exercises, exits 1 (prints FAIL and what differed) when it is violated. It must exit 0 on the unmodified code and exit 1 with the patch applied. Run as: cd <worktree> && /venv/bin/python _out/k/demo.py
  /tmp/wt_$ID/_out/k/notes.md     - 5-10 lines: what was changed, why it breaks the property, what exactly it needs in order to manifest, and the exact commands you ran with their results (suite result with the change: N passed / 0 failed; demo without / with the change).
IMPORTANT: never use 'git stash' (the stash is shared between all worktrees of this repository and other jobs run concurrently): toggle your change with 'git diff > file', 'git apply file', 'git apply -R file' or 'git checkout -- linear_operator' only.
When finished, restore the worktree sources to the unmodified state (git checkout -- linear_operator) leaving only the _out directory. Do not commit anything.
Final answer: a short summary of the two changes (files/functions touched, trigger condition), and confirmation of the verification steps you performed.
TXT
