import itertools, json, sys, collections
sys.path.insert(0, '/verif')
from engine import common
from contracts import sh_C02
items=[]
for br in (1,):
    for ka,kb in itertools.product(sh_C02.KINDS, repeat=2):
        for op in ("+","-","@"):
            items.append(("bin",ka,kb,br,op))
    for k in sh_C02.KINDS:
        for w in sh_C02.UNARY:
            items.append(("un",k,br,w))
units=[common.Unit("item:"+json.dumps(it),"contracts.sh_C02","check_many",([it],),engine="shadow",timeout_s=600) for it in items]
res=common.run_units(units)
out={}
for name,r in res.items():
    it=name[5:]
    if r["kind"]!="ok": out[it]={"kind":r["kind"],"err":r.get("error")}; continue
    c=collections.Counter(o["status"] for o in r["obligations"])
    out[it]={"kind":"ok","counts":dict(c),"wall":round(r["wall_s"],1),"bad":[(o["name"],o["status"],str(o.get("info") or o.get("reason"))[:300]) for o in r["obligations"] if o["status"]!="discharged"][:6]}
json.dump(out,open("/verif/.scratch_c02_survey.json","w"),indent=1)
tot=collections.Counter()
for it,v in out.items():
    k = "crash" if v["kind"]!="ok" else ("clean" if set(v["counts"])<= {"discharged"} and v["counts"] else "empty" if not v["counts"] else "+".join(sorted(set(v["counts"])-{"discharged"})))
    tot[k]+=1
print(tot)
