#!/bin/bash
# usage: confirm_seeded.sh <incoming name e.g. C03_1> <property id> [more property ids whose checks to run]
# Confirms a seeded change in a scratch worktree (never in /repo): demo passes without / fails with the patch, the existing
# suite still passes with the patch, then runs the named checks against the patched tree and records what they report.
set -u
NAME=$1; shift
PIDS="$@"
SRC=/verif/seeded/_incoming/$NAME
WT=/tmp/wt_confirm_$NAME
OUT=/verif/seeded/$NAME
mkdir -p "$OUT"
git -C /repo worktree add -q --detach "$WT" HEAD || exit 2
cd "$WT" || exit 2
res() { echo "$1" | tee -a "$OUT/confirm.log"; }
: > "$OUT/confirm.log"
res "base commit: $(git -C /repo rev-parse --short HEAD)"
/venv/bin/python "$SRC/demo.py" > "$OUT/demo_clean.out" 2>&1; D0=$?
res "demo on clean tree: exit $D0"
if ! git apply "$SRC/patch.diff" 2>/dev/null; then
  if ! patch -p1 --fuzz=3 -s < "$SRC/patch.diff" > /dev/null 2>&1; then res "patch does not apply to the current tree"; git -C /repo worktree remove --force "$WT"; exit 1; fi
  find . -name "*.orig" -delete; find . -name "*.rej" -delete
fi
git diff > "$OUT/patch.diff"
/venv/bin/python "$SRC/demo.py" > "$OUT/demo_patched.out" 2>&1; D1=$?
res "demo on patched tree: exit $D1"
OMP_NUM_THREADS=4 /venv/bin/python -m pytest -q -p no:cacheprovider --timeout=900 -q -x > "$OUT/suite.out" 2>&1; S=$?
res "existing suite on patched tree: exit $S ($(grep -E 'passed|failed' "$OUT/suite.out" | tail -1))"
CAUGHT=""
for P in $PIDS; do
  (cd /verif && VERIF_REPO="$WT" ./check "$P" > "$OUT/check_$P.out" 2>&1); C=$?
  NV=$(grep -c '^VIOLATION' "$OUT/check_$P.out")
  res "check $P on patched tree: exit $C, $NV VIOLATION lines; first: $(grep '^VIOLATION' "$OUT/check_$P.out" | head -3 | sed 's/replay=[^ ]* //' | tr '\n' ';' | cut -c1-600)"
  [ "$C" = "1" ] && CAUGHT="$CAUGHT $P"
done
cp "$SRC/demo.py" "$OUT/demo.py"; cp "$SRC/notes.md" "$OUT/notes.md" 2>/dev/null
/venv/bin/python - "$NAME" "$D0" "$D1" "$S" "$CAUGHT" "$PIDS" <<'EOF'
import json, sys, re
name, d0, d1, s, caught, pids = sys.argv[1:7]
out = f"/verif/seeded/{name}"
notes = open(f"{out}/notes.md").read() if __import__("os").path.exists(f"{out}/notes.md") else ""
meta = {"name": name, "breaks_property": name.split("_")[0], "confirmed": d0 == "0" and d1 != "0" and s == "0",
        "demo_exit_clean": int(d0), "demo_exit_patched": int(d1), "suite_exit_patched": int(s),
        "checks_run": pids.split(), "checks_reporting_violation": caught.split(),
        "needs_to_manifest": notes[:1500], "ran": open(f"{out}/confirm.log").read().splitlines()}
json.dump(meta, open(f"{out}/meta.json", "w"), indent=1)
print(json.dumps({k: meta[k] for k in ("name", "confirmed", "checks_reporting_violation")}))
EOF
cd / && git -C /repo worktree remove --force "$WT"
rm -rf /verif/.scratch/replays 2>/dev/null
