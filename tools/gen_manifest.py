#!/usr/bin/env python3
"""(re)generate MANIFEST.json from the table below + what exists under contracts/."""
import json
import os

V = os.path.dirname(os.path.dirname(os.path.abspath(__file__)))
props = [json.loads(l) for l in open(os.path.join(V, "properties.jsonl"))]
BOUNDED = (" Bounded stand-in (labelled bounded, never counted as proved): run-time contracts taken from the property statement, evaluated on the real code under real torch over "
           "an enumerated family (operator zoo x batch shapes x sizes x dtypes x operand kinds x settings) against independent dense oracles.")
LEAF = "symtorch kernel models (conformance-tested against real torch on every run); floats as reals; dense-backed children (modularity); signature-bounded ranks; "
T = {
 "C01": ("other", "contracts on the real _matmul/_t_matmul/to_dense/_transpose_nonbatch/_size + LinearOperator.matmul/Matmul.forward, symbolic execution of the unmodified source, z3 + sum-normal-form prover; bounded run-time contracts for the rest",
         "Proved for all sizes/entries (per rank signature): shape, dtype, raise-equivalence with torch.matmul and entry-wise value (D X, D^T X incl. associativity by Fubini for nested sums) of matmul/@/_matmul/_t_matmul/to_dense/transpose for Dense, Diag, ConstantDiag, Triangular, Sum, AddedDiag, ConstantMul, Matmul, Root, SumBatch." + BOUNDED + " The bounded tier covers every class (53 zoo cases incl. nestings, user subclass, FFT/sparse/reshape kernels).",
         LEAF + "classes with FFT / sparse / reshape-chain kernels (Toeplitz, Interpolated, Kronecker, Block*, BatchRepeat, Cat, Masked, Permutation, Kernel) only bounded"),
 "C02": ("other", "contracts on the real dispatching __add__/__sub__/matmul/mul/div/add_diagonal/expand/... cells, symbolic execution + z3/sumnf; spec matrix of the RESULT recomputed from its constructor arguments; bounded run-time contracts for the rest",
         "Proved (all sizes/entries, independent symbolic batch sizes so broadcasting is explored): 1399 cells of the class-pair table (19 classes) for + - @ and 20 unary/scalar/batch/diagonal operations: D(result) equals the dense expression, with raise-equivalence; multi-step programs follow by modularity." + BOUNDED + " Bounded tier: all ordered pairs of 63 cases, scalar kinds, batch manipulation, add_low_rank, cat_rows, cat, random programs of depth <= 3.",
         LEAF + "root-decomposition based operations (operator*operator, + Root operands, add_low_rank, cat_rows, prod) only bounded; known findings listed in known_findings.json / contracts/notes/C02_known.json"),
 "C03": ("other", "contracts on the real __getitem__ / _compute_getitem_size / per-class _get_indices and _diagonal, symbolic execution (symbolic sizes, ints, slices, index tensors of symbolic length), z3 non-linear integer arithmetic; torch indexing rule = conformance-tested model; bounded run-time contracts",
         "Proved for all sizes and index values: LinearOperator.__getitem__ normalisation (ints incl. negative / out of range, slices, ellipsis, 1-D tensors, absorbed tensor indices; debug on and off) on a dense-backed operator for every index-kind signature of length <= 3, and _get_indices / _diagonal of 18 classes (Toeplitz |i-j|, Kronecker div/mod, BlockDiag, BlockInterleaved, Interpolated incl. the root fast path, ...) against the spec matrix." + BOUNDED,
         LEAF + "_getitem slice overrides, Cat, Masked, Permutation, Kernel and nestings only bounded; known findings in contracts/notes/C03_known.json"),
 "C04": ("other", "contracts: solve as the residual identity D X = B on the real solve/_solve dispatch, with leaf contracts for cholesky_solve / solve_triangular / cholesky_ex / linear_cg; symbolic settings so every method-selection path is explored; z3 + sum prover with fact bridging; bounded run-time contracts",
         "Proved (given the leaf contracts): D X = B entry-wise, shape and dtype for Diag, ConstantDiag, Identity, Triangular (both orientations), Cholesky operators (both orientations) and, on the CG route, Dense / Sum / ConstantMul / Matmul, with max_cholesky_size and fast_computations.solves symbolic." + BOUNDED + " Bounded tier: 70 PSD cases x 15 settings combinations x rhs kinds x left factors, tolerance by the method actually taken.",
         "LEAF CONTRACTS assumed: torch.cholesky_solve, torch.linalg.solve_triangular, torch.linalg.cholesky_ex (PD case), linear_cg (exact convergence); " + LEAF + "value on the Cholesky route of non-structured operators, Kronecker/Woodbury/block shortcuts and CG accuracy only bounded"),
 "C05": ("other", "run-time contracts on the real code (bounded stand-in); no contract within reach decides the numeric clauses deductively",
         "Bounded only: dense oracle for logdet / inv_quad / inv_quad_logdet on deterministic paths, exact output shapes for every flag combination, and on the stochastic path the exact Gauss-Lanczos quadrature recomputed in float64 for the probe vectors read from the autograd node (matches to 2e-7), 70 PSD cases x 11 settings combinations.",
         "dense float64 oracles; tolerances by method; the proved tier for C05 (shape conventions, closed forms) was not built: see DESIGN section 11"),
 "C06": ("other", "run-time contracts on the real code (bounded stand-in)",
         "Bounded only: residuals R R^T = A, R R^T = A^-1, Q^T Q = I, Q diag(w) Q^T = A, U diag(S) V^T = A, exact triangularity and orientation of Cholesky factors, for every method value, sizes on both sides of the thresholds, through torch.linalg entry points; Lanczos roots against the orthogonal-compression oracle.",
         "dense float64 oracles; LAPACK leaves; no proved tier (the factorisation identities need the leaf facts under summation binders): see DESIGN section 11"),
 "C07": ("other", "run-time contracts on the real code (bounded stand-in)",
         "Bounded only: every hand-written _bilinear_derivative against autograd of the class's own _matmul and against the dense oracle at leaf level; every differentiable entry point against autograd through the dense matrix for all subsets of leaves requiring grad, memory_efficient on/off, max_cholesky_size 0/default; 65 builders.",
         "torch.autograd as oracle; float64; no proved tier (gradient values are identities between sums through FFT / solves): see DESIGN section 11"),
 "C08": ("other", "run-time contracts on the real linear_cg (bounded stand-in)",
         "Bounded only: A-norm error monotone in the budget, the sqrt(kappa) bound down to the stated floor, residual below tolerance when no warning, zero / frozen columns, linear scaling, preconditioner independence, Lanczos identities of the returned tridiagonals, error paths; spectrum families, sizes 1..64, kappa <= 1e6, f32/f64.",
         "floating-point convergence cannot be decided by a contract within reach; LOOPCUT index-bound / frame contracts for linear_cg were not built"),
 "C09": ("other", "run-time contracts on the real lanczos_tridiag and its consumers (bounded stand-in)",
         "Bounded only: orthonormality, Q^T A Q = T, last-column residual, breakdown, all budgets 1..n+2, batches, multiple start vectors; consumers against the orthogonal-compression oracle.",
         "floating-point; no proved tier"),
 "C10": ("other", "run-time contracts on the real pivoted Cholesky and preconditioner (bounded stand-in)",
         "Bounded only: residual PSD and zero on pivot rows/cols, greedy pivot rule, monotone trace, exactness at full rank, stopping rule, permutation validity per batch member; preconditioner closure = (L L^T + D)^-1, SPD, logdet equals dense logdet tightly, returned operator densifies to L L^T + D.",
         "floating-point; no proved tier"),
 "C11": ("other", "run-time contracts on the real minres / contour_integral_quad / sqrt_inv_matmul (bounded stand-in)",
         "Bounded only: residuals for all shifts, shift-dimension rule, zero rhs, linearity, quadrature identities, sqrt_inv_matmul twice = A^-1 R, left-factor variant, f32/f64.",
         "floating-point; no proved tier"),
 "C12": ("other", "contracts on the real memoize primitives (ghost map), exhaustive over the finite key domain collected from the AST; AST audits of every @cached / add_to_cache site; symbolic argument-independence proof for ignore_args uses; bounded query histories",
         "Proved/exhaustive: cached / add_to_cache / get / pop satisfy the map contract and never share an entry between different (args, kwargs); ignore_args=True only on argument-independent methods (Diag/Identity _cholesky, proved symbolically); every explicit writer/reader name is accounted for." + BOUNDED + " Bounded tier: all query histories of length <= 2 (pruned 3) over 37 query symbols on 28 PSD cases, derived operators' caches multiplied out.",
         "pickle injective on the keyword values that occur (checked on that finite domain); validity of cached VALUES along histories and of transplanted roots only bounded; 5 root causes recorded as known findings (contracts/notes/C12_known.json)"),
 "C13": ("other", "frame contracts: alias/ownership domain of the symbolic tensor model (views share storage, every in-place kernel emits the storage it writes), obligations on every explored path of the C01/C02/C03/C14/C16 explorations; bounded run-time _version/bitwise snapshots",
         "Proved on every explored path (all sizes): no in-place kernel reaches caller-owned storage for matmul/_t_matmul/_get_indices of the proved classes, 17 public operations on 16-19 classes, psd_safe_cholesky." + BOUNDED + " Bounded tier: ~60 public operations and all utilities over 4 argument layouts with _version + bitwise + surrounding-buffer snapshots.",
         LEAF + "iterative solvers, sparse/Toeplitz utilities, autograd backward passes only bounded"),
 "C14": ("other", "contracts on the real __init__/representation/representation_tree/clone/detach/to/type/requires_grad_ executed on a generic container subclass for every argument layout of a bounded signature + per-class rebuild/convert vs the spec matrix; bounded run-time contracts",
         "Proved per layout/class (all sizes, symbolic operator dtype unrelated to the default dtype): rebuild returns the same structure with the very same leaf objects, clone shares no storage, conversions give every floating leaf the target dtype and never touch integer/bool leaves, requires_grad reaches exactly the floating leaves; 26 real classes keep class, flags and spec matrix under rebuild/clone/detach/float/double/to." + BOUNDED,
         LEAF + "layout signature <= 3 positional + 2 keyword arguments, nesting <= 2 (deeper by structural induction, argued in DESIGN); returned-tensor dtype of every entry point only bounded"),
 "C15": ("other", "AST audit of the registration decorators vs the live tables; exhaustive contract of __torch_function__ over table x class hierarchy x argument forms with recorder methods; symbolic values of reflected/keyword forms; bounded run-time contracts over every table entry",
         "Exhaustive over the finite dispatch space: tables equal their decorators, every registered name resolves with a compatible signature on every subclass, the router calls exactly the named method with the right argument order or raises NotImplementedError; proved values of 25 reflected / alpha / second-argument forms on a dense-backed operator." + BOUNDED,
         "routing exhaustive with recorder methods (not over operand values); value of entries delegating to solve/cholesky/eigh/svd is C04-C06"),
 "C16": ("proof", "SHADOW symbolic execution of the real _psd_safe_cholesky + LOOPCUT inductive invariant with ghost per-member jitter level; z3",
         "All paths of the real psd_safe_cholesky/_psd_safe_cholesky are explored on a symbolic batch of symbolic size with symbolic jitter and max_tries; the retry loop is cut at an inductive invariant (Aprime = A + lvl(level(b)) I, failing members are at the current level, every lower level failed); postconditions: exact factor of A on first success, factor of exactly A + jitter*10^i I per member with minimal i, only NanError/NotPSDError escape, warning emitted, upper honoured, A never written. Signature-bounded: batch rank 0..1 (quick) / 0..2 (thorough). Bounded cross-check on real matrices.",
         "torch.linalg.cholesky_ex leaf contract (deterministic per-member function; info==0 <=> success; finite factor); floats as reals; max_tries >= 1; out= not explored; symtorch kernel models trusted but conformance-tested"),
 "C17": ("proof", "contracts (Hoare triples + ghost at_enter) on the real settings classes; symbolic class state; z3",
         "Per-method triples init/enter/exit for every setting class and both composites are discharged by z3 for symbolic values and every None-ness signature, normal and exceptional exit, first and second use of one object, frame over all setting classes; the history property follows by induction over well-nested histories (DESIGN C17). Bounded cross-check: exhaustive native enumeration of event histories against a stack oracle.",
         "None-ness of slots is enumerated (cannot intercept `is None`); CPython executes the real methods; history induction is a paper argument over the discharged triples"),
 "C18": ("other", "contracts: sample = R Z entry-wise with R R^T = D(op), torch.randn modelled as a fresh symbolic tensor, symbolic execution of the real samplers, z3 + sum prover; bounded run-time contracts with identity noise",
         "Proved (all sizes, batch sizes, numbers of samples): shape (k,*batch,n), dtype, linearity in the recorded noise and R R^T = D for the Diag/ConstantDiag/Identity samplers, the generic root sampler on Root/LowRankRoot/Cholesky operators, Interpolated over a root operator and PsdSum of root operators." + BOUNDED + " Bounded tier recovers R column by column for every class, both sides of max_cholesky_size, ciq on/off.",
         LEAF + "roots from numerical factorisations (Cholesky/Lanczos/CIQ) and the block samplers only bounded"),
 "C19": ("other", "raise-equivalence contracts in the shape/index domain: the dense reference (conformance-tested torch model incl. error cases) is executed in the same symbolic path as the library call; z3",
         "Proved for all sizes: the library raises whenever torch would reject, for matmul/@ on 10 classes x rhs ranks, + - @ between the class pairs of the C02 cell registry with mismatching matrix dimensions or non-broadcastable batches, tensor operands, expand, add_diagonal, integer / one-element tensor indices out of range with debug on and off; _matmul_broadcast_shape characterised totally (raises iff torch.matmul raises, same shape)." + BOUNDED,
         LEAF + "solve / inv_quad / cat / square-only operations and long out-of-range index tensors only bounded; known findings in contracts/notes/C19_known.json"),
 "C20": ("other", "contracts on the real toeplitz_getitem / sym_toeplitz_getitem / left_interp / inverse_permutation (symbolic execution, z3); bounded run-time contracts for FFT / sparse / QR utilities",
         "Proved for all sizes: Toeplitz entry lookup, left_interp == W x (vector and matrix rhs, batch broadcast, width 1..2), inverse_permutation inverts a bijection in both directions (scatter as a universally quantified fact)." + BOUNDED + " Bounded tier: every utility of utils/{toeplitz,interpolation,sparse,permutation,qr,pinverse,broadcasting} and dsmm against dense definitions.",
         LEAF + "FFT products, toeplitz(), COO utilities, stable_qr, stable_pinverse, left_t_interp, dsmm only bounded"),
}
CLAIMED = sorted(T)
checks, na = [], []
for p in props:
    pid = p["id"]
    if pid not in CLAIMED:
        na.append({"property_id": pid, "reason": "check not built"})
        continue
    cat, tech, text, note = T[pid]
    sh = os.path.exists(os.path.join(V, "contracts", f"sh_{pid}.py")) or pid == "C17"
    checks.append({
        "property_id": pid,
        "quick_cmd": f"./check {pid} --tier quick",
        "thorough_cmd": f"./check {pid} --tier thorough",
        "evidence_file": f"evidence/{pid}.json",
        "replay_cmd_template": f"./check {pid} --replay {{path}}",
        "engine": "shadow+rtc" if sh else "rtc",
        "level_claimed": {"category": cat, "text": text, "design_ref": f"DESIGN.md sections 4 ({pid}) and 10"},
        "level_note": note,
        "technique": tech,
    })
shadow_ids = [c["property_id"] for c in checks if c["engine"].startswith("shadow")]
m = {
 "version": 1,
 "setup_cmd": "./setup.sh",
 "hooks": {"guard": "LINEAR_OPERATOR_VERIF", "enable": "no hooks: all instrumentation is sidecar (shadow import of the unmodified source / in-process wrappers); /repo carries only fix: commits",
           "baseline_off_cmd": "cd /repo && /venv/bin/python -m pytest -ra -q -p no:cacheprovider --timeout=900 --continue-on-collection-errors",
           "source_commits": [], "add_only": True},
 "engines": [
   {"name": "shadow", "path": "engine/", "serves_properties": shadow_ids, "kind_free_text": "symbolic execution of the unmodified /repo source (shadow import with a symbolic torch model), exhaustive path exploration, obligations discharged by z3 (cvc5 second opinion), sum-normal-form prover for identities between matrix products"},
   {"name": "loopcut", "path": "engine/loopcut.py", "serves_properties": ["C16", "C13"], "kind_free_text": "mechanical AST loop cutting at sidecar inductive invariants (establish/preserve/use)"},
   {"name": "audit", "path": "contracts/sh_C12.py, contracts/sh_C15.py", "serves_properties": ["C12", "C15"], "kind_free_text": "obligations regenerated from the AST of the current tree (decorators, cache sites) and discharged exhaustively over finite tables"},
   {"name": "rtc", "path": "contracts/rtc_*.py, contracts/zoo.py", "serves_properties": [c["property_id"] for c in checks], "kind_free_text": "bounded stand-in: run-time contracts on the real code over an enumerated family, dense oracles; never counted as proved"},
 ],
 "checks": checks,
 "notes": "see DESIGN.md (sections 10-12 describe what was built); known findings: known_findings.json + contracts/notes/*_known.json; seeded changes: seeded/",
 "not_applicable": na,
}
json.dump(m, open(os.path.join(V, "MANIFEST.json"), "w"), indent=1)
print(len(checks), "checks;", len(na), "not claimed")
