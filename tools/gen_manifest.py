#!/usr/bin/env python3
"""(re)generate MANIFEST.json from the table below + what exists under contracts/."""
import json
import os

V = os.path.dirname(os.path.dirname(os.path.abspath(__file__)))
props = [json.loads(l) for l in open(os.path.join(V, "properties.jsonl"))]

# per property: (category, technique, text, note)
T = {
 "C17": ("proof", "contracts (Hoare triples + ghost at_enter) on the real settings classes; symbolic class state; z3",
         "Per-method triples init/enter/exit for every setting class and both composites are discharged by z3 for symbolic values and every None-ness signature, normal and exceptional exit, first and second use of one object, frame over all setting classes; the history property follows by induction over well-nested histories (DESIGN C17). Bounded cross-check: exhaustive native enumeration of event histories against a stack oracle.",
         "None-ness of slots is enumerated (cannot intercept `is None`); CPython executes the real methods; history induction is a paper argument over the discharged triples."),
 "C16": ("proof", "SHADOW symbolic execution of the real _psd_safe_cholesky + LOOPCUT inductive invariant with ghost per-member jitter level; z3",
         "All paths of the real psd_safe_cholesky/_psd_safe_cholesky are explored on a symbolic batch of symbolic size with symbolic jitter and max_tries; the retry loop is cut at an inductive invariant (Aprime = A + lvl(level(b)) I, failing members are at the current level, every lower level failed); postconditions: exact factor of A on first success, factor of exactly A + jitter*10^i I per member with minimal i, only NanError/NotPSDError escape, warning emitted, upper honoured, A never written. Signature-bounded: batch rank 0..1 (quick) / 0..2 (thorough).",
         "torch.linalg.cholesky_ex leaf contract (deterministic per-member function; info==0 <=> success; finite factor); floats as reals; max_tries >= 1; out= not explored; symtorch kernel models are trusted but conformance-tested."),
}
DEFAULT = ("other", "run-time contracts on the real code over an enumerated operator/input family (bounded stand-in); proved tier in progress",
           "Bounded tier only so far: contracts taken from the property statement are evaluated on the real code under real torch over a systematic family (zoo classes x batch shapes x sizes x dtypes x operand kinds) against independent dense oracles. Labelled bounded; nothing is counted as proved.",
           "dense oracles of contracts/zoo.py; float tolerances; enumerated family only")

CLAIMED = ["C01", "C12", "C16", "C17", "C18", "C20"]  # only what currently passes on the unchanged tree
checks, na = [], []
for p in props:
    pid = p["id"]
    have = any(os.path.exists(os.path.join(V, "contracts", f)) for f in (f"{pid}.py", f"sh_{pid}.py", f"rtc_{pid}.py"))
    if not have or pid not in CLAIMED:
        na.append({"property_id": pid, "reason": "check not built yet (build in progress; see DESIGN.md section 8)"})
        continue
    cat, tech, text, note = T.get(pid, DEFAULT)
    checks.append({
        "property_id": pid,
        "quick_cmd": f"./check {pid} --tier quick",
        "thorough_cmd": f"./check {pid} --tier thorough",
        "evidence_file": f"evidence/{pid}.json",
        "replay_cmd_template": f"./check {pid} --replay {{path}}",
        "engine": "shadow+rtc" if os.path.exists(os.path.join(V, "contracts", f"sh_{pid}.py")) or pid == "C17" else "rtc",
        "level_claimed": {"category": cat, "text": text, "design_ref": f"DESIGN.md section 4, {pid}"},
        "level_note": note,
        "technique": tech,
    })
m = {
 "version": 1,
 "setup_cmd": "./setup.sh",
 "hooks": {"guard": "LINEAR_OPERATOR_VERIF", "enable": "no hooks: all instrumentation is sidecar (shadow import of the unmodified source / in-process wrappers); /repo carries only fix: commits",
           "baseline_off_cmd": "cd /repo && /venv/bin/python -m pytest -ra -q -p no:cacheprovider --timeout=900 --continue-on-collection-errors",
           "source_commits": [], "add_only": True},
 "engines": [
   {"name": "shadow", "path": "engine/", "serves_properties": ["C16", "C17"], "kind_free_text": "symbolic execution of the unmodified /repo source (shadow import with a symbolic torch model), exhaustive path exploration, obligations discharged by z3 (cvc5 second opinion)"},
   {"name": "loopcut", "path": "engine/loopcut.py", "serves_properties": ["C16"], "kind_free_text": "mechanical AST loop cutting at sidecar inductive invariants (establish/preserve/use)"},
   {"name": "rtc", "path": "contracts/rtc_*.py, contracts/zoo.py", "serves_properties": [c["property_id"] for c in checks], "kind_free_text": "bounded stand-in: run-time contracts on the real code over an enumerated family, dense oracles"},
 ],
 "checks": checks,
 "notes": "see DESIGN.md; known findings in known_findings.json",
 "not_applicable": na,
}
json.dump(m, open(os.path.join(V, "MANIFEST.json"), "w"), indent=1)
print(len(checks), "checks;", len(na), "not yet claimed")
