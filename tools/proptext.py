#!/usr/bin/env python3
"""print the text of one property (for briefing independent sub-agents)"""
import json, sys
for l in open('/verif/properties.jsonl'):
    p = json.loads(l)
    if p['id'] == sys.argv[1]:
        print(f"Property {p['id']}: {p['title']}\n\nStatement: {p['statement']}\n\nQuantifier ({', '.join(p['quantifier']['over'])}): {p['quantifier']['text']}\n\nWhy the existing tests cannot settle it: {p['why_tests_cant']}\n\nCode anchors: files {p['anchors']['files']}\nMechanisms: " + "; ".join(f"{m.get('name')} @ {m.get('where')}" for m in p['anchors']['mechanism']) + f"\nObserve at: {p['anchors'].get('observe_at')}")
