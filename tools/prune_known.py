#!/usr/bin/env python3
"""usage: tools/prune_known.py [--apply] <PID> ...
Known-finding entries are only ever written by hand (never at check time).  After a `fix:` commit some entries no longer
match anything; this tool finds them: it runs the check of each property (quick tier for seeds 0, 1, 7 and the thorough
tier for seed 0), collects the ids of the findings that matched (evidence/<PID>.json: coverage.known_findings) and lists
the entries of contracts/notes/<PID>_known.json and known_findings.json that never matched.  With --apply the stale entries
of contracts/notes/<PID>_known.json are removed (known_findings.json is edited by hand: its entries move to "fixed")."""
import json
import os
import subprocess
import sys

V = os.path.dirname(os.path.dirname(os.path.abspath(__file__)))
args = [a for a in sys.argv[1:] if not a.startswith("--")]
apply = "--apply" in sys.argv
quick_only = "--quick-only" in sys.argv
for pid in args:
    matched = set()
    runs = [("quick", "0"), ("quick", "1"), ("quick", "7")] + ([] if quick_only else [("thorough", "0")])
    for tier, seed in runs:
        env = dict(os.environ, VERIF_SEED=seed, VERIF_TIER=tier, VERIF_SCRATCH_OUT="1")  # evidence of these runs goes to .scratch/
        r = subprocess.run([os.path.join(V, "check"), pid, "--tier", tier], cwd=V, env=env, capture_output=True, text=True)
        ev = json.load(open(os.path.join(V, ".scratch", "evidence", f"{pid}.json")))
        cov = ev.get("coverage", ev)
        ids = cov.get("known_findings", [])
        matched |= set(ids)
        print(f"{pid} tier={tier} seed={seed}: exit {r.returncode}, {len(ids)} findings matched, {r.stdout.count('VIOLATION')} violation lines", flush=True)
    p = os.path.join(V, "contracts", "notes", f"{pid}_known.json")
    if os.path.exists(p):
        es = json.load(open(p))
        stale = [e["id"] for e in es if e["id"] not in matched]
        print(f"{pid}: {len(es)} entries in {os.path.relpath(p, V)}, stale: {stale}")
        if apply and stale:
            json.dump([e for e in es if e["id"] in matched], open(p, "w"), indent=1)
            print(f"{pid}: removed {len(stale)} stale entries")
    top = json.load(open(os.path.join(V, "known_findings.json")))
    stale_top = [e["id"] for e in top["known"] if e["property"] == pid and e["id"] not in matched]
    if stale_top:
        print(f"{pid}: stale entries in known_findings.json (move to 'fixed' by hand): {stale_top}")
