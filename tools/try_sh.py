import sys, collections, time
from contracts import sh_C03
kinds = sys.argv[1].split(',') if len(sys.argv)>1 else sh_C03.GET_INDICES_KINDS
fn = getattr(sh_C03, sys.argv[2]) if len(sys.argv)>2 else sh_C03.check_get_indices
for k in kinds:
    t=time.time()
    try:
        res = fn(k, 1)
    except Exception as e:
        import traceback; traceback.print_exc(); continue
    print(k, dict(collections.Counter(o['status'] for o in res)), f"{time.time()-t:.1f}s")
    for o in res:
        if o['status']!='discharged': print('   ',o['name'], o['status'], str(o.get('info') or o.get('reason'))[:400])
